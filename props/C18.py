"""C18 -- the configuration parser is safe on arbitrary input (DESIGN §5 C18).

Theorems: coq/Properties/C18.v over Model/Lexer.v (token layer of parse_lex.l + recursive-descent load of parse_tab.y's
hand-written actions).  Tie, re-established on every run:
  * gen/gen_lex.py re-reads string_buf's size, the bound check and its slack, MAX_INCLUDE_DEPTH and its test, the
    keyword / escape / script tables, the parser-side checks, and the flex buffer constants from the CURRENT source;
    the proofs use those facts (Gen/GenLex.v);
  * R-LEX: harness/lex_h.c links the REAL lexer + parser regenerated (bison/flex) from the scratch copy and the daemon
    sources conf_init() needs, ASan/UBSan(+float-cast-overflow); one forked child per case runs conf_init() and, if the
    configuration is accepted, dev_initial_connect() + three pre_poll/poll/post_poll rounds against echo coprocesses;
    a second child per case dumps the real token stream (yylex() until 0).  The extracted model (driver/lex_drv.ml)
    runs on the same files: token streams are compared token by token, and conf_init outcomes by class
    (accepted / exit != 0, and whether stderr carries a `msg: file::line` diagnostic).
Monitor = the property itself on the implementation's outcome: serving, or exit status != 0 with a diagnostic; never a
sanitizer report, abort, signal or hang while reading; an accepted configuration survives the first connect; every
numeric conversion reads memory that still spells the token (lifetime of `yylval = yytext`).
"""
import os, sys, re, json, glob, time, subprocess, hashlib
from concurrent.futures import ThreadPoolExecutor
import vlib

CORPUS = os.path.join(vlib.VERIF, "corpus", "C18")
MAIN = "powerman.conf"
NWORK = 16


def hx(b):
    return b.hex() if b else "-"


def unhx(s):
    return b"" if s == "-" else bytes.fromhex(s)


# ====================================================================== building
def build(ctx):
    ctx.regen_parser()
    r = ctx.repo
    srcs = [os.path.join(vlib.VERIF, "harness", "lex_h.c")]
    srcs += [os.path.join(r, "src/powerman", f) for f in
             ("parse_lex.c", "device.c", "device_tcp.c", "device_pipe.c", "device_serial.c", "arglist.c", "debug.c")]   # parse_tab.c, pluglist.c, parse_util.c are #included by lex_h.c
    srcs += sorted(glob.glob(os.path.join(r, "src/libcommon/*.c"))) + sorted(glob.glob(os.path.join(r, "src/liblsd/*.c")))
    impl = ctx.cc_parallel(srcs, "lex_h", extra=["-fsanitize=float-cast-overflow"], link_extra=["-Wl,--wrap=getaddrinfo,--wrap=execv"])
    model = ctx.ocaml_driver("lex_model", "lexmodel", "lex_drv.ml")
    hdr = open(os.path.join(r, "src/powerman/parse_tab.h")).read()
    codes = dict((int(v), k) for k, v in re.findall(r"^\s+(TOK_[A-Z_]+) = (\d+),?", hdr, re.M))
    if len(codes) < 50:
        raise vlib.TieBroken("parse_tab.h: token enum not found")
    msgs = set(re.findall(r'_(?:errormsg|warnmsg)\("([^"]+)"\)', open(os.path.join(r, "src/powerman/parse_tab.y")).read()))
    msgs |= set(m for m in re.findall(r'err_exit\(false, "([^"%]+): %s::%d"', open(os.path.join(r, "src/powerman/parse_lex.l")).read()))
    return impl, model, codes, msgs


# ====================================================================== running
SANENV = dict(ASAN_OPTIONS="exitcode=99:detect_leaks=0:allocator_may_return_null=1", UBSAN_OPTIONS="exitcode=98:print_stacktrace=0")


def case_line(cid, mode, files):
    return "C %s %s %d %s" % (cid, mode, len(files), " ".join(hx(n) + " " + hx(c) for n, c in files))


def run_impl(ctx, impl, jobs):
    """jobs: list of (cid, mode, files).  Returns cid -> dict."""
    chunks = [jobs[i::NWORK] for i in range(NWORK)]
    tmo = "4" if ctx.tier == "quick" else "8"

    def work(k):
        if not chunks[k]:
            return ""
        inp = "\n".join(case_line(c, m, f) for c, m, f in chunks[k]) + "\n"
        wd = os.path.join(ctx.scratch, "wd%d" % k)
        p = subprocess.run(["timeout", "-s", "KILL", "3000", impl, "serve", wd], input=inp.encode(), stdout=subprocess.PIPE,
                           stderr=subprocess.PIPE, env=dict(os.environ, LEX_H_TIMEOUT=tmo, **SANENV))
        return p.stdout.decode("latin-1")
    out = {}
    with ThreadPoolExecutor(NWORK) as ex:
        for txt in ex.map(work, range(NWORK)):
            for l in txt.splitlines():
                w = l.split()
                if len(w) < 3 or w[0] != "R":
                    continue
                d = dict(x.split("=", 1) for x in w[2:])
                d["err"] = unhx(d.get("err", "-"))
                out[w[1]] = d
    # a wall-clock budget of a few seconds means little on a loaded machine: a case that was killed is run again, alone, with a budget
    # of 40 s, and only counts as not returning if it is killed again
    slow = [j for j in jobs if out.get(j[0], {}).get("st") == "timeout"][:40]
    if slow:
        inp = "\n".join(case_line(c, m, f) for c, m, f in slow) + "\n"
        p = subprocess.run(["timeout", "-s", "KILL", "3000", impl, "serve", os.path.join(ctx.scratch, "wdslow")], input=inp.encode(), stdout=subprocess.PIPE,
                           stderr=subprocess.PIPE, env=dict(os.environ, LEX_H_TIMEOUT="40", **SANENV))
        for l in p.stdout.decode("latin-1").splitlines():
            w = l.split()
            if len(w) >= 3 and w[0] == "R":
                d = dict(x.split("=", 1) for x in w[2:]); d["err"] = unhx(d.get("err", "-"))
                out[w[1]] = d
    return out


def run_model(ctx, model, lines):
    chunks = [lines[i::NWORK] for i in range(NWORK)]

    def work(k):
        if not chunks[k]:
            return ""
        p = subprocess.run(["timeout", "-s", "KILL", "3000", model], input=("\n".join(chunks[k]) + "\n").encode(),
                           stdout=subprocess.PIPE, stderr=subprocess.PIPE, preexec_fn=lambda: __import__("resource").setrlimit(
                               __import__("resource").RLIMIT_STACK, (__import__("resource").RLIM_INFINITY,) * 2))
        return p.stdout.decode("latin-1")
    out = {}
    with ThreadPoolExecutor(NWORK) as ex:
        for txt in ex.map(work, range(NWORK)):
            for l in txt.splitlines():
                w = l.split()
                if len(w) >= 3 and w[0] == "R":
                    out[w[1]] = dict(x.split("=", 1) for x in w[2:])
    return out


class Oracle:
    """answers of the environment the model is parametrised by, computed by the real hostlist.c / regcomp /
    (wrapped, numeric-only) getaddrinfo / stat of the harness binary; cached per string"""

    def __init__(self, impl):
        self.impl, self.cache = impl, {}

    def ask(self, queries):
        todo = [q for q in dict.fromkeys(queries) if q not in self.cache]
        if not todo:
            return
        inp = "\n".join(q for q in todo) + "\n"
        p = subprocess.run(["timeout", "-s", "KILL", "600", self.impl, "oracle"], input=inp.encode(), stdout=subprocess.PIPE,
                           stderr=subprocess.PIPE, env=dict(os.environ, **SANENV))
        ans = p.stdout.decode("latin-1").splitlines()
        if len(ans) != len(todo):
            raise vlib.TieBroken("oracle helper answered %d of %d queries: %s" % (len(ans), len(todo), p.stderr.decode("latin-1")[-500:]))
        for q, a in zip(todo, ans):
            self.cache[q] = a

    def entries(self, strings):
        qs = []
        for s in strings:
            h = hx(s)
            qs += ["hl " + h, "re " + h + " 30", "re " + h + " 31"]
            if s[:1] == b"/":
                qs.append("chr " + h)
            if b":" in s:
                host, port = s.split(b":", 1)
                qs.append("gai %s %s" % (hx(host), hx(port)))
        self.ask(qs)
        out = []
        for q in dict.fromkeys(qs):
            w, a = q.split(), self.cache[q]
            if w[0] == "hl":
                v = "none" if a in ("none", "hang", "crash") else (a.split(" ", 1)[1] if " " in a else "=")
                out.append("hl:%s:%s" % (w[1], v))
            elif w[0] == "re":
                out.append("re:%s:%s:%s" % ("1" if w[2] == "31" else "0", w[1], a))
            elif w[0] == "chr":
                out.append("chr:%s:%s" % (w[1], a))
            else:
                out.append("gai:%s:%s:%s" % (w[1], w[2], a))
        return out


# ====================================================================== classification and monitor
def impl_class(r, msgs):
    """observable class of a conf_init run of the real code"""
    if r is None:
        return "lost"
    st = r["st"]
    bad = r["asan"] != "-" or r["ubsan"] == "1" or r["assert"] == "1" or st.startswith("sig:") or st == "timeout" or st in ("exit:99", "exit:98")
    if bad:
        return "bad"
    if st == "exit:0":
        return "ok" if r["stage"] == "2" else "bad"
    return "exit+line" if hasline(r["err"], msgs) else "exit"


def hasline(err, msgs):
    for l in err.split(b"\n"):
        if not re.search(rb"::\d+$", l):
            continue
        for m in msgs:
            if l.startswith(b"powermand: " + m.encode() + b": ") or l.startswith(b"powermand: warning: " + m.encode() + b": "):
                return True
    return False


def monitor(r):
    """the property on the implementation's own outcome: None if fine, else (clause, site, detail)"""
    if r is None:
        return ("harness", "lost-result", "no result line")
    st, err = r["st"], r["err"]
    head = err[:400].decode("latin-1")
    if st == "timeout":
        return ("no_hang", "reading" if r["stage"] == "0" else "after-accept", "killed after the per-case time-out")
    if r["asan"] != "-":
        m = re.search(r"#\d+ 0x[0-9a-f]+ in (\w+) [^\n]*(?:src/(?:powerman|liblsd|libcommon)/|parse_tab\.y|parse_lex\.l)", err.decode("latin-1"))
        return ("no_memerr" if r["stage"] == "0" else "accepted_runs", r["asan"] + (":" + m.group(1) if m else ""), head)
    if r["ubsan"] == "1":
        m = re.search(r"([\w.]+):(\d+):\d+: runtime error: ([^\n]*)", err.decode("latin-1"))
        what = m.group(3) if m else ""
        site = "float-cast" if "outside the range of representable values" in what else ("null-arg" if "null pointer" in what else "ubsan")
        site += ":" + (os.path.basename(m.group(1)) if m else "")
        return ("no_memerr" if r["stage"] == "0" else "accepted_runs", site, head)
    if r["assert"] == "1" or st == "sig:6":
        m = re.search(r"([\w./-]+):(\d+): (\w+): Assertion", err.decode("latin-1"))
        return ("no_abort" if r["stage"] == "0" else "accepted_runs", (m.group(3) if m else "abort"), head)
    if st.startswith("sig:"):
        return ("no_memerr" if r["stage"] == "0" else "accepted_runs", st, head)
    if r.get("numlife") == "1":
        return ("numbers", "stale-yytext", "a numeric token was converted from memory that no longer spells it")
    if st == "exit:0":
        return None if r["stage"] == "2" else ("accepted_runs", "exit0-stage" + r["stage"], head)
    if r["stage"] != "0":
        return ("accepted_runs", "exit-after-accept", head)
    if int(r["errlen"]) == 0:
        return ("diagnostic", "silent-exit", st)
    return None


# ====================================================================== case generation
SPEC_OK = b'specification "s" {\n\ttimeout 5\n\tscript login { send "login\\n" expect "login" }\n\tscript status { send "stat %s\\n" expect "([0-9]+): (on|off)" setplugstate $1 $2 on="on" off="off" }\n\tscript on { send "on %s\\n" }\n}\n'
DEVNODE = b'device "d0" "s" "/bin/cat |&"\nnode "n[1-3]" "d0"\n'
GENERIC = b'specification "generic" {\n\ttimeout 5\n\tscript login { send "x\\n" expect "x" }\n}\n'


def shipped(ctx):
    """name -> bytes of every shipped configuration / device file (basenames; t/etc wins on a clash)"""
    out = {}
    for pat in ("etc/devices/*.dev", "t/etc/*.dev", "t/etc/*.conf", "etc/powerman.conf.example"):
        for p in sorted(glob.glob(os.path.join(ctx.repo, pat))):
            out[os.path.basename(p)] = open(p, "rb").read()
    return out


def base_cases(files):
    """one accepted configuration around every shipped file"""
    cases = []
    for name, data in sorted(files.items()):
        if name.endswith(".dev"):
            specs = re.findall(rb'^\s*specification\s+"([^"]+)"', data, re.M)
            main = b'include "' + name.encode() + b'"\n'
            for i, s in enumerate(specs):
                main += b'device "d%d" "%s" "/bin/cat |&"\nnode "n%d" "d%d"\n' % (i, s, i, i)
            cases.append(dict(tag="shipped:" + name, files=[(MAIN.encode(), main), (name.encode(), data)], target=1))
        elif name.endswith("plugs.conf"):
            devs = list(dict.fromkeys(re.findall(rb'^\s*node\s+"[^"]*"\s+"([^"]+)"', data, re.M)))
            main = GENERIC + b"".join(b'device "%s" "generic" "/bin/cat |&"\n' % d for d in devs) + b'include "' + name.encode() + b'"\n'
            cases.append(dict(tag="shipped:" + name, files=[(MAIN.encode(), main), (name.encode(), data)], target=1))
        else:
            cases.append(dict(tag="shipped:" + name, files=[(MAIN.encode(), data + b"\n" + SPEC_OK + DEVNODE)], target=0))
    return cases


TOKRE = re.compile(rb'"(?:[^"\\\n]|\\.)*"|#[^\n]*\n|[A-Za-z_]+|[0-9]+(?:\.[0-9]*)?|\s+|.', re.S)
POOL = [b"{", b"}", b"=", b"$", b"$1", b'"x"', b"script", b"login", b"status", b"on", b"off", b"expect", b"send", b"delay", b"0.1", b"setplugstate",
        b"setresult", b"success", b"foreachnode", b"foreachplug", b"ifon", b"ifoff", b"specification", b"device", b"node", b"alias", b"timeout",
        b"pingperiod", b"plug name", b"include", b"listen", b"tcpwrappers", b"yes", b"no", b"plug_log_level", b'"info"', b"ping", b"#", b"\n", b'"',
        b"\\", b".", b"1.", b".5", b"plug", b"name", b"status_all", b"on_ranged", b"beacon_on", b"reset_all", b"cycle", b"logout"]
ODD = [b"\x00", b"\xff", b"\x80", b"\x1b", b"\r", b"\x0c", b"\x0b", b"\\", b'"', b"\n", b"#", b"$", b"{", b"}", b"\\0", b"\\777", b"\\18", b"\\\n", b"\\\x00"]


def toks_of(data):
    return TOKRE.findall(data)


def mutate(rng, data):
    """one structural or byte-level mutation; returns (kind, new bytes)"""
    r = rng.random()
    toks = toks_of(data)
    sig = [i for i, t in enumerate(toks) if not t.isspace() and not t.startswith(b"#")]
    if r < 0.13 and sig:
        i = rng.choice(sig); k = rng.choice([1, 1, 1, 2, 3])
        return "del-token", b"".join(toks[:i] + toks[i + k:])
    if r < 0.22 and sig:
        i = rng.choice(sig)
        return "dup-token", b"".join(toks[:i] + [toks[i], b" "] + toks[i:])
    if r < 0.31 and len(sig) > 1:
        i, j = rng.sample(sig, 2)
        toks[i], toks[j] = toks[j], toks[i]
        return "swap-tokens", b"".join(toks)
    if r < 0.40 and sig:
        i = rng.choice(sig)
        toks[i] = rng.choice(POOL)
        return "replace-token", b"".join(toks)
    if r < 0.46 and sig:
        i = rng.choice(sig)
        return "insert-token", b"".join(toks[:i] + [rng.choice(POOL), b" "] + toks[i:])
    if r < 0.58:
        # sections: brace-balanced blocks or whole lines
        blocks = [(m.start(), brace_end(data, m.end() - 1)) for m in re.finditer(rb"(?:script\s+\w+|specification\s+\"[^\"]*\"|foreach\w+|if\w+|plug name)\s*\{", data)]
        blocks = [(a, b) for a, b in blocks if b]
        lines = [(m.start(), m.end()) for m in re.finditer(rb"^[ \t]*(?:device|node|alias|listen|include|timeout|pingperiod)[^\n]*\n", data, re.M)]
        segs = blocks + lines
        if segs:
            a, b = rng.choice(segs)
            k = rng.random()
            if k < 0.4:
                return "del-section", data[:a] + data[b:]
            if k < 0.7:
                return "dup-section", data[:b] + b" " + data[a:b] + data[b:]
            c, d = rng.choice(segs)
            if b <= c:
                return "swap-sections", data[:a] + data[c:d] + data[b:c] + data[a:b] + data[d:]
            if d <= a:
                return "swap-sections", data[:c] + data[a:b] + data[d:a] + data[c:d] + data[b:]
            return "del-section", data[:a] + data[b:]
    if r < 0.70:
        return "truncate", data[:rng.randrange(0, len(data) + 1)]
    if r < 0.82:
        p = rng.randrange(0, len(data) + 1)
        k = rng.choice([1, 1, 1, 2, 4, 16])
        blob = bytes(rng.randrange(256) for _ in range(k)) if rng.random() < 0.5 else b"".join(rng.choice(ODD) for _ in range(k))
        return "splice-bytes", data[:p] + blob + (data[p:] if rng.random() < 0.6 else data[p + len(blob):])
    strs = [i for i, t in enumerate(toks) if t.startswith(b'"') and len(t) >= 2]
    if r < 0.90 and strs:
        i = rng.choice(strs)
        n = rng.choice([8189, 8190, 8191, 8192, 8193, 8200, 20000, 300, 257, 256])
        fill = rng.choice([b"a", b"a", b"x\\n", b"\\101", b"[", b"\xc3\xa9", None, None])
        if fill is None:
            # several long runs of ordinary characters separated by escapes, n decoded bytes in all: the run that crosses the end of
            # string_buf is longer than one character (a bulk copy that only looks at the run's own length would overflow)
            body, left = b"", n
            while left > 0:
                k = min(left, rng.choice([1, 2, 7, 100, 1000, 3000, 5000, 8000]))
                body += rng.choice([b"a", b"b", b"["]) * k; left -= k
                if left > 0:
                    body += rng.choice([b"\\t", b"\\n", b"\\101", b"\\q"]); left -= 1
        else:
            body = (fill * (n // len(fill) + 1))
        if fill in (b"a", b"["):
            body = body[:n]
        toks[i] = b'"' + body + b'"'
        return "long-string-%d" % n, b"".join(toks)
    nums = [i for i, t in enumerate(toks) if t[:1].isdigit()]
    if nums:
        i = rng.choice(nums)
        toks[i] = rng.choice([b"9" * 400, b"1" + b"0" * 308, b"1" + b"0" * 309, b"9" * 19, b"9" * 20, b"9223372036854775807", b"9223372036854775808",
                              b"2147483648", b"4294967297", b"2147483", b"2147484", b"2147483.0000000001", b"2147483.9", b"0." + b"0" * 400 + b"1",
                              b"00000000000000000000000012", b"017", b"08", b"1.", b".5", b"0", b"1e5", b"0x10", b"99999999999999999999.5"])
        return "odd-number", b"".join(toks)
    return "truncate", data[:rng.randrange(0, len(data) + 1)]


def brace_end(data, openpos):
    depth, i, n = 0, openpos, len(data)
    instr = False
    while i < n:
        c = data[i:i + 1]
        if instr:
            if c == b"\\":
                i += 1
            elif c == b'"':
                instr = False
        elif c == b'"':
            instr = True
        elif c == b"{":
            depth += 1
        elif c == b"}":
            depth -= 1
            if depth == 0:
                return i + 1
        i += 1
    return None


def include_cases(rng):
    out = []
    M = MAIN.encode()
    leaf = SPEC_OK + DEVNODE
    for depth in list(range(0, 13)):
        files = [(M, b'include "f1"\n' if depth > 0 else leaf)]
        for k in range(1, depth + 1):
            files.append((b"f%d" % k, (b'# level %d\ninclude "f%d"\n' % (k, k + 1)) if k < depth else leaf))
        out.append(dict(tag="include-chain-%d" % depth, files=files))
    out.append(dict(tag="include-self", files=[(M, b'include "powerman.conf"\n')]))
    out.append(dict(tag="include-self-after-content", files=[(M, leaf + b'include "powerman.conf"\n')]))
    out.append(dict(tag="include-cycle-2", files=[(M, b'include "a"\n'), (b"a", b'include "b"\n'), (b"b", b'include "a"\n')]))
    out.append(dict(tag="include-diamond", files=[(M, b'include "a"\ninclude "b"\n' + DEVNODE), (b"a", b'include "c"\n'), (b"b", b'include "c2"\n'),
                                                   (b"c", SPEC_OK), (b"c2", SPEC_OK.replace(b'"s"', b'"s2"'))]))
    out.append(dict(tag="include-twice-same-spec", files=[(M, b'include "a"\ninclude "a"\n' + DEVNODE), (b"a", SPEC_OK)]))
    out.append(dict(tag="include-missing", files=[(M, leaf + b'include "nope"\n')]))
    out.append(dict(tag="include-missing-after-semantic-error", files=[(M, SPEC_OK + b'node "n1" "nodev"\ninclude "nope"\n')]))
    out.append(dict(tag="include-missing-as-lookahead", files=[(M, SPEC_OK + b'node "n1" "nodev" include "nope"\n')]))
    out.append(dict(tag="include-unquoted", files=[(M, b"include a\n" + DEVNODE), (b"a", SPEC_OK)]))
    out.append(dict(tag="include-unquoted-3", files=[(M, b"include xay\n" + DEVNODE), (b"a", SPEC_OK)]))
    out.append(dict(tag="include-1char", files=[(M, leaf + b"include x\n")]))
    out.append(dict(tag="include-2char", files=[(M, leaf + b'include ""\n')]))
    out.append(dict(tag="include-nul-first", files=[(M, leaf + b"include \x00abc\n")]))
    out.append(dict(tag="include-nul-middle", files=[(M, b'include "a\x00zzz"\n' + DEVNODE), (b'a', SPEC_OK)]))
    out.append(dict(tag="include-at-eof", files=[(M, leaf + b"include")]))
    out.append(dict(tag="include-at-eof-of-included", files=[(M, b'include "a" "b"\n' + DEVNODE), (b"a", b"include"), (b"b", SPEC_OK)]))
    out.append(dict(tag="include-name-on-next-line", files=[(M, b'include \n\n\t "a"\n' + DEVNODE), (b"a", SPEC_OK)]))
    out.append(dict(tag="include-glued", files=[(M, b'include"a"' + DEVNODE), (b"a", SPEC_OK)]))
    out.append(dict(tag="include-string-spans-files", files=[(M, b'include "a"\ntail" \n' + leaf), (b"a", b'listen "head ')]))
    out.append(dict(tag="include-backslash-at-eof", files=[(M, b'include "a"\nn" \n' + leaf), (b"a", b'listen "head\\')]))
    out.append(dict(tag="include-comment-no-newline", files=[(M, b'include "a"\n' + leaf), (b"a", b"# no newline at end")]))
    out.append(dict(tag="include-depth-inside-string", files=[(M, b'listen "\ninclude "a"\n')]))
    # F23: a name token starting with NUL that flex has just moved to the start of its buffer
    for off in (8186, 8190):
        pre = b"#" * (off - 8) + b"\n"
        out.append(dict(tag="include-nul-at-refill-%d" % off, files=[(M, pre + b"include" + b"\x00" + b"x" * 30 + b"\n")]))
    return out


def directed_cases():
    M = MAIN.encode()
    out = []

    def add(tag, main, extra=()):
        out.append(dict(tag=tag, files=[(M, main)] + list(extra)))
    ok = SPEC_OK + DEVNODE
    add("ok", ok)
    add("empty", b"")
    add("only-comment-no-newline", b"# hello")
    add("no-nodes", SPEC_OK + b'device "d0" "s" "/bin/cat |&"\n')
    add("spec-no-login", b'specification "s" { timeout 1 script status { send "x" } }\n' + DEVNODE)          # F14
    add("spec-no-login-unused", b'specification "u" { timeout 1 script status { send "x" } }\n' + ok)
    add("spec-empty", b'specification "s" { }\n' + DEVNODE)
    add("spec-no-timeout", b'specification "s" { script login { send "x\\n" expect "x" } }\n' + DEVNODE)
    add("spec-dup-script", b'specification "s" { script login { send "x" } script login { send "y" } }\n' + DEVNODE)
    add("spec-dup-pluglist", b'specification "s" { plug name { "1" } plug name { "2" } script login { send "x" } }\n' + DEVNODE)
    add("spec-empty-pluglist", b'specification "s" { plug name { } script login { send "x" } }\n' + DEVNODE)
    add("spec-empty-block", b'specification "s" { script login { } }\n' + DEVNODE)
    add("spec-bad-script-name", b'specification "s" { script yes { send "x" } }\n' + DEVNODE)
    add("login-setplugstate-first", b'specification "s" { timeout 1 script login { setplugstate $1 $2 } }\n' + DEVNODE)          # F26
    add("login-setplugstate-lit-first", b'specification "s" { timeout 1 script login { setplugstate "1" $1 on="a" } }\n' + DEVNODE)
    add("login-setresult-first", b'specification "s" { timeout 1 script login { setresult $1 $2 success="ok" } }\n' + DEVNODE)
    add("login-foreach-ifon", b'specification "s" { timeout 1 script login { foreachnode { ifon { send "a" } ifoff { send "b" } } foreachplug { send "%s" } } }\n' + DEVNODE)
    for form in (b"setplugstate $1", b"setplugstate $1 on=\"a\"", b"setplugstate $1 $2", b"setplugstate $1 $2 off=\"b\" on=\"a\"", b'setplugstate "p" $1',
                 b'setplugstate "p" $1 on="x"', b"setresult $1 $2 success=\"ok\"", b"setresult $1 $2", b"setplugstate", b'setplugstate "p"', b"setplugstate $",
                 b"setplugstate $1 $2 $3", b"setplugstate $.5 $1", b"setplugstate $1. $017", b"setplugstate $08 $1", b"setplugstate $99999999999999999999 $1",
                 b"setplugstate $9223372036854775807 $1", b"setplugstate $2147483648 $4294967297", b"setplugstate $1 on \"a\"", b"setplugstate $1 on=", b"setresult $1 $2 success=\"(\""):
        add("stmt:" + form.decode(), b'specification "s" { timeout 1 script login { send "x\\n" expect "(x)(x)?" ' + form + b" } }\n" + DEVNODE)
    for t in (b"0", b"1", b"0.5", b".5", b"5.", b"2147483", b"2147483.0000000001", b"2147483.0000000003", b"2147484", b"99999999999999999999", b"9223372036854775295",
              b"9223372036854775296", b"1" + b"0" * 308, b"1" + b"0" * 309, b"9" * 400, b"0." + b"0" * 400 + b"1", b"179769313486231570" + b"0" * 291,
              b"179769313486231580" + b"0" * 291):
        add("timeout:" + t[:24].decode(), b'specification "s" { timeout ' + t + b' script login { send "x" } }\n' + DEVNODE)
        add("delay:" + t[:24].decode(), b'specification "s" { timeout 1 script login { delay ' + t + b" } }\n" + DEVNODE)
    add("stale-errno-long-max", b'specification "s" { timeout 0.' + b"0" * 400 + b'1 script login { send "x\\n" expect "(x)" setplugstate $9223372036854775807 $1 } }\n' + DEVNODE)   # F30
    add("pingperiod", b'specification "s" { timeout 1 pingperiod 0.5 script login { send "x" } script ping { send "p" } }\n' + DEVNODE)
    add("regex-bad-unused", b'specification "u" { script login { expect "(" } }\n' + ok)
    add("regex-bad", b'specification "s" { script login { expect "(" } }\n' + DEVNODE)
    add("regex-bad-interp", b'specification "s" { script login { send "x" } script status { setplugstate $1 $2 on="[" } }\n' + DEVNODE)
    add("regex-256", b'specification "s" { script login { expect "' + b"a" * 256 + b'" } }\n' + DEVNODE)
    add("regex-257", b'specification "s" { script login { expect "' + b"a" * 257 + b'" } }\n' + DEVNODE)
    add("regex-cr-lf", b'specification "s" { script login { expect "a\\\\r\\\\nb\\r\\n" } }\n' + DEVNODE)
    add("device-unknown-spec", SPEC_OK + b'device "d0" "nospec" "/bin/cat |&"\nnode "n1" "d0"\n')
    add("device-2-strings", SPEC_OK + b'device "d0" "s"\nnode "n1" "d0"\n')
    add("device-5-strings", SPEC_OK + b'device "d0" "s" "/bin/cat |&" "f" "g"\nnode "n1" "d0"\n')
    add("device-pipe-flags", SPEC_OK + b'device "d0" "s" "/bin/cat |&" "whatever"\nnode "n1" "d0"\n')
    add("device-pipe-empty", SPEC_OK + b'device "d0" "s" "|&"\nnode "n1" "d0"\n')
    add("device-dup-name", SPEC_OK + b'device "d0" "s" "/bin/cat |&"\ndevice "d0" "s" "/bin/cat |&"\nnode "n1" "d0"\n')
    for h in (b"127.0.0.1:1", b"127.0.0.1:0", b"127.0.0.1:65535", b"127.0.0.1:65536", b"127.0.0.1:4294967297", b"127.0.0.1", b"127.0.0.1:", b"127.0.0.1:x",
              b"127.0.0.1: 80", b"127.0.0.1:0x50", b"127.0.0.1:080", b"127.0.0.1:010", b"127.0.0.1:+7", b"127.0.0.1:-1", b"127.0.0.1:99999999999999999999", b"localhost:80",
              b"nosuch.example:80", b":80", b"::1:80", b"", b"a:b:c", b"127.0.0.1:80x"):
        add("tcp:" + h.decode(), SPEC_OK + b'device "d0" "s" "' + h + b'"\nnode "n1" "d0"\n')
    for f in (b"quiet", b"quiet,quiet", b",,quiet,", b"", b"loud", b"quiet,loud", b"Quiet",
              b"quiet, ", b" ", b",\t,", b" quiet", b"quiet ,quiet", b"quiet,\t", b", ,", b"quiet,,", b"\t"):      # blank-only / padded options
        add("tcp-flags:" + f.decode(), SPEC_OK + b'device "d0" "s" "127.0.0.1:9" "' + f + b'"\nnode "n1" "d0"\n')
    add("serial-noflags-null", SPEC_OK + b'device "d0" "s" "/dev/null"\nnode "n1" "d0"\n')                     # F24
    add("serial-flags-null", SPEC_OK + b'device "d0" "s" "/dev/null" "9600,8n1"\nnode "n1" "d0"\n')
    add("serial-emptyflags-ptmx", SPEC_OK + b'device "d0" "s" "/dev/ptmx" ""\nnode "n1" "d0"\n')              # F24
    add("serial-blankflags-ptmx", SPEC_OK + b'device "d0" "s" "/dev/ptmx" " \\t"\nnode "n1" "d0"\n')
    add("serial-junkflags-ptmx", SPEC_OK + b'device "d0" "s" "/dev/ptmx" "fast"\nnode "n1" "d0"\n')
    add("serial-okflags-ptmx", SPEC_OK + b'device "d0" "s" "/dev/ptmx" "9600,8n1"\nnode "n1" "d0"\n')
    add("serial-noflags-ptmx", SPEC_OK + b'device "d0" "s" "/dev/ptmx"\nnode "n1" "d0"\n')
    add("serial-not-chardev", SPEC_OK + b'device "d0" "s" "/etc/passwd" "9600,8n1"\nnode "n1" "d0"\n')
    add("serial-missing", SPEC_OK + b'device "d0" "s" "/nonexistent/tty" "9600,8n1"\nnode "n1" "d0"\n')
    hw = b'specification "h" { timeout 1 plug name { "1" "2" "3" } script login { send "x\\n" expect "x" } }\ndevice "d0" "h" "/bin/cat |&"\n'
    add("node-hw-next", hw + b'node "a,b,c" "d0"\n')
    add("node-hw-too-many", hw + b'node "a,b,c,d" "d0"\n')
    add("node-hw-named", hw + b'node "a,b" "d0" "3,1"\n')
    add("node-hw-unknown-plug", hw + b'node "a" "d0" "9"\n')
    add("node-hw-dup-plug", hw + b'node "a" "d0" "1"\nnode "b" "d0" "1"\n')
    add("node-more-nodes", hw + b'node "a,b" "d0" "1"\n')
    add("node-more-plugs", hw + b'node "a" "d0" "1,2"\n')
    add("node-dup-node", SPEC_OK + b'device "d0" "s" "/bin/cat |&"\nnode "n1" "d0"\nnode "n1" "d0" "other"\n')
    add("node-dup-in-list", SPEC_OK + b'device "d0" "s" "/bin/cat |&"\nnode "n1,n1" "d0"\n')
    add("node-unknown-dev", SPEC_OK + b'device "d0" "s" "/bin/cat |&"\nnode "n1" "dx"\n')
    add("node-bad-range", SPEC_OK + b'device "d0" "s" "/bin/cat |&"\nnode "t[1" "d0"\n')                         # F16 (fixed)
    add("node-bad-plug-range", SPEC_OK + b'device "d0" "s" "/bin/cat |&"\nnode "t1" "d0" "p[3-1]"\n')
    add("node-huge-range", SPEC_OK + b'device "d0" "s" "/bin/cat |&"\nnode "t[0-18446744073709551615]" "d0"\n')  # F2 (fixed)
    # hostlist.c findings of the C14/C06 check that are reachable from a node / alias line while reading configuration
    add("node-saturated-range-suffix", SPEC_OK + b'device "d0" "s" "/bin/cat |&"\nnode "t[99999999999999999999]x" "d0"\n')
    add("node-range-over-2e31", SPEC_OK + b'device "d0" "s" "/bin/cat |&"\nnode "n[3000000000,1]" "d0"\n')
    add("node-name-5000", SPEC_OK + b'device "d0" "s" "/bin/cat |&"\nnode "' + b"a" * 5000 + b'" "d0"\n')                # F3
    add("alias-name-1024", SPEC_OK + DEVNODE + b'alias "all" "' + b"b" * 1024 + b'"\n')
    add("node-empty", SPEC_OK + b'device "d0" "s" "/bin/cat |&"\nnode "" "d0"\n')
    add("node-padded", SPEC_OK + b'device "d0" "s" "/bin/cat |&"\nnode "t[01-03],t1" "d0"\n')
    add("alias-ok", ok + b'alias "all" "n[1-3]"\n')
    add("alias-dangling", ok + b'alias "all" "n[1-4]"\n')
    add("alias-dup", ok + b'alias "a" "n1"\nalias "a" "n2"\n')
    add("alias-bad-range", ok + b'alias "a" "n[1"\n')
    # host lists with a closing bracket and no opening one (hostlist_create refuses them; a pre-check that only looks for '[' would not)
    for bad in (b"n1]", b"n1,n2]", b"]", b"n]1", b"n1],n2"):
        add("node-list-unopened:" + bad.decode(), SPEC_OK + b'device "d0" "s" "/bin/cat |&"\nnode "' + bad + b'" "d0"\n')
        add("plug-list-unopened:" + bad.decode(), SPEC_OK + b'device "d0" "s" "/bin/cat |&"\nnode "n1" "d0" "' + bad + b'"\n')
        add("alias-unopened:" + bad.decode(), ok + b'alias "a" "' + bad + b'"\n')
    add("alias-before-nodes", SPEC_OK + b'alias "a" "n1"\n' + DEVNODE)
    add("listen", ok + b'listen "127.0.0.1:10101"\nlisten "garbage"\n')
    for t in (b"tcpwrappers", b"tcpwrappers yes", b"tcpwrappers no", b"tcpwrappers }", b"tcpwrappers no tcpwrappers"):
        add("tcpwrap:" + t.decode(), ok + t + b"\n")
    for l in (b"info", b"debug", b"none", b"panic", b"warning", b"", b"INFO", b"verbose"):
        add("loglevel:" + l.decode(), ok + b'plug_log_level "' + l + b'"\n')
    add("loglevel-bad-then-parse-error", ok + b'plug_log_level "bogus" }\n')
    add("device-gai-then-parse-error", SPEC_OK + b'device "d0" "s" "nosuch.example:80" }\n')
    add("node-error-then-unrecognized", SPEC_OK + b'device "d0" "s" "/bin/cat |&"\nnode "n1" "dx" ~\n')
    # strings
    for n in (8189, 8190, 8191, 8192, 8193, 8200, 20000):
        add("listen-string-%d" % n, b'listen "' + b"a" * n + b'"\n' + ok)                                      # F15
    for pre, n in ((5000, 3190), (5000, 3191), (5000, 3192), (5000, 3200), (5000, 5000), (8000, 400), (8190, 2), (8190, 1), (100, 8091), (100, 8092)):
        add("string-runs-%d+1+%d" % (pre, n), b'listen "' + b"a" * pre + b"\\t" + b"b" * n + b'"\n' + ok)    # two runs around an escape
    add("string-8191-escapes", b'listen "' + b"\\t" * 8191 + b'"\n' + ok)
    add("string-8192-escapes", b'listen "' + b"\\101" * 8192 + b'"\n' + ok)
    add("string-8192-then-nul", b'listen "' + b"\x00" + b"a" * 9000 + b'"\n' + ok)
    add("string-nul-cuts-run", b'listen "ab\x00cd\\tef\x00gh"\n' + ok)
    add("string-octal-nul", b'listen "ab\\000cd"\n' + ok)
    add("string-escapes", b'listen "\\a\\b\\e\\f\\n\\r\\t\\v\\\\\\"\\q\\1\\12\\123\\777\\189\\900\\\n\\\x00z"\n' + ok)
    add("string-newline", b'listen "ab\ncd"\n' + ok)
    add("string-unterminated", ok + b'listen "abc')
    add("string-unterminated-backslash", ok + b'listen "abc\\')
    add("string-high-bytes", b'listen "\xff\x80\xc3\xa9"\n' + ok)
    add("number-then-letters", b'specification "s" { timeout 10expect script login { send "x" } }\n' + DEVNODE)
    add("comment-40000", b"#" + b"c" * 40000 + b"\n" + ok)
    add("blank-40000", b" " * 40000 + ok)
    add("unknown-char", ok + b"~\n")
    add("nul-byte", ok + b"\x00\n")
    add("formfeed", ok + b"\x0c\n")
    add("keyword-prefixes", b"status_al on_ plug nam plug  \t name plugname includ statusx\n")
    add("nesting-60", b'specification "s" { timeout 1 script login { ' + b"foreachnode { " * 60 + b'send "x" ' + b"} " * 60 + b"} }\n" + DEVNODE)
    # F22: `$N` converted after flex refilled / reallocated its buffer
    head = b'specification "s" { timeout 1 script login { send "x\\n" expect "(x)(x)?"'
    tail = b' } }\ndevice "d0" "s" "/bin/cat |&"\nnode "n1" "d0"\n'
    add("numlife-realloc-comment", head + b" setplugstate $1 $2 #" + b"c" * 40000 + b"\n" + tail)
    add("numlife-realloc-blanks", head + b" setplugstate $1 $2 " + b" " * 40000 + b"\n" + tail)
    for off, fill in ((8185, b"c"), (8185, b"7"), (8189, b"c")):
        pre = b"#" + b"c" * 100 + b"\n"
        txt = pre + head + b" " * (off - len(pre) - len(head) - 14) + b" setplugstate " + b'$1 $2 off="zzzzzzzzzzzzzzzzzzzzzzzzzzzzzzzzzzz" on="yyyyyyyyyyyyyyyy"' + tail
        txt += (b"#" + fill * 98 + b"\n") * 120
        add("numlife-refill-%d-%s" % (off, fill.decode()), txt)
    return out


def random_cases(rng, n):
    out = []
    alpha = [b" ", b"\n", b"\t", b'"', b"{", b"}", b"=", b"$", b"#", b"\\", b"1", b"0", b".", b"a", b"x"] + POOL
    for i in range(n):
        if rng.random() < 0.4:
            data = bytes(rng.randrange(256) for _ in range(rng.choice([1, 3, 10, 40, 200, 1000])))
        else:
            data = b"".join(rng.choice(alpha) + (b" " if rng.random() < 0.6 else b"") for _ in range(rng.choice([2, 5, 12, 30, 80])))
        if rng.random() < 0.3:
            data = SPEC_OK + DEVNODE + data
        out.append(dict(tag="random", files=[(MAIN.encode(), data)]))
    return out


def mutation_cases(rng, bases, n):
    out = []
    for i in range(n):
        b = bases[i % len(bases)] if i < len(bases) * 2 else rng.choice(bases)
        files = list(b["files"])
        t = b.get("target", 0) if rng.random() < 0.8 else 0
        kind, nd = mutate(rng, files[t][1])
        if rng.random() < 0.15:
            k2, nd = mutate(rng, nd)
            kind += "+" + k2
        files[t] = (files[t][0], nd)
        out.append(dict(tag="mut:" + kind, base=b["tag"], files=files))
    return out


def truncation_cases(bases, step=None, per_file=None):
    """systematic truncation of the mutated file of every base case: every [step]-th byte, or [per_file] evenly
    spaced offsets"""
    out = []
    for b in bases:
        t = b.get("target", 0)
        data = b["files"][t][1]
        if step:
            offs = range(step, len(data), step)
        else:
            offs = sorted(set(len(data) * k // (per_file + 1) for k in range(1, per_file + 1)))
        for o in offs:
            files = list(b["files"])
            files[t] = (files[t][0], data[:o])
            out.append(dict(tag="mut:truncate-at", base=b["tag"], files=files))
    return out


def load_corpus():
    out = []
    for p in sorted(glob.glob(os.path.join(CORPUS, "*.json"))):
        d = json.load(open(p))
        out.append(dict(tag="corpus:" + os.path.basename(p)[:-5], files=[(unhx(n), unhx(c)) for n, c in d["files"]]))
    return out


def case_json(c):
    return dict(tag=c["tag"], files=[[hx(n), hx(d)] for n, d in c["files"]])


def show(c, limit=600):
    """human-readable witness: the configuration text"""
    out = {}
    for n, d in c["files"]:
        t = d.decode("latin-1")
        out[n.decode("latin-1")] = t if len(t) <= limit else t[:limit // 2] + "...[%d bytes]..." % len(t) + t[-limit // 2:]
    return out


# ====================================================================== evaluation of a batch
def evaluate(ctx, impl, model, codes, msgs, oracle, cases, want_tokens=True):
    """runs both sides; returns list of dict(case, impl, implx, model, modelx, verdict...)"""
    jobs, mlines = [], []
    for i, c in enumerate(cases):
        jobs.append(("c%d" % i, "conf", c["files"]))
        if want_tokens:
            jobs.append(("l%d" % i, "lex", c["files"]))
        mlines.append(case_line("l%d" % i, "lex", c["files"]))
    t = time.time()
    with ThreadPoolExecutor(2) as ex:
        fi = ex.submit(run_impl, ctx, impl, jobs)
        fm = ex.submit(run_model, ctx, model, mlines)
        ri, rm = fi.result(), fm.result()
    # oracle tables from the model's own string tokens
    mlines2 = []
    for i, c in enumerate(cases):
        m = rm.get("l%d" % i)
        strs = []
        if m and "toks" in m and m["toks"] != "-":
            for tk in m["toks"].split(","):
                if tk.startswith("TOK_STRING_VAL:"):
                    strs.append(unhx(tk.split(":", 1)[1]))
        ent = oracle.entries(list(dict.fromkeys(strs)))
        mlines2.append(case_line("c%d" % i, "conf", c["files"]) + " O %d %s" % (len(ent), " ".join(ent)))
    rm2 = run_model(ctx, model, mlines2)
    res = []
    for i, c in enumerate(cases):
        res.append(dict(case=c, conf=ri.get("c%d" % i), lex=ri.get("l%d" % i), mlex=rm.get("l%d" % i), mconf=rm2.get("c%d" % i)))
    return res


def model_class(m, stale=False):
    """class of the model's run; stale=True: the run in which errno holds a stale ERANGE at every strtol conversion"""
    if m is None or "class" not in m:
        return "model-error:" + (m or {}).get("error", "lost")
    p = "e" if stale else ""
    if m[p + "class"] == "ok":
        return "ok" if m[p + "mand"] == "1" else "bad"
    if m[p + "class"] == "exit":
        return "exit+line" if m[p + "line"] == "1" else "exit"
    return "bad"


def errno_dependent(m):
    """the two answers of the stale-errno oracle give different observable classes (F30 not applied)"""
    return m is not None and "eclass" in m and model_class(m) != model_class(m, True)


def impl_tokens(lex, codes):
    if lex is None or lex.get("toks", "-") == "-":
        return []
    out = []
    for t in lex["toks"].split(","):
        w = t.split(":")
        name = codes.get(int(w[0]), "EOF" if w[0] == "0" else "?" + w[0])
        out.append(name + (":" + w[1] if len(w) > 1 else ""))
    return out


def outside_abstraction(r):
    """the model's include map is `name -> option bytes`; a name that resolves to a directory (flex: input failed,
    exit 2) is outside it"""
    c = r["conf"]
    return c is not None and (c["st"] == "exit:2" or b"input in flex scanner failed" in c["err"])


def compare(r, codes, msgs):
    """None, or (relation, detail)"""
    if outside_abstraction(r):
        return None
    ic, mc = impl_class(r["conf"], msgs), model_class(r["mconf"])
    if ic != mc and errno_dependent(r["mconf"]) and ic == model_class(r["mconf"], True):
        return None      # the implementation took the other branch of the environment oracle (stale errno)
    if ic != mc:
        return ("R-LEX.class", "implementation=%s (st=%s stage=%s err=%r) model=%s (%s)" % (
            ic, r["conf"] and r["conf"]["st"], r["conf"] and r["conf"]["stage"], r["conf"] and r["conf"]["err"][:160], mc, r["mconf"]))
    if r["lex"] is not None and r["mlex"] is not None and "toks" in r["mlex"]:
        it = impl_tokens(r["lex"], codes)
        mt = [] if r["mlex"]["toks"] == "-" else r["mlex"]["toks"].split(",")
        lst = r["lex"]["st"]
        if lst == "exit:0":
            if r["mlex"]["end"] != "eof" or it != mt + ["EOF"]:
                return ("R-LEX.tokens", "end=%s first difference at token %d: impl=%s model=%s" % ((r["mlex"]["end"],) + first_diff(it, mt + ["EOF"])))
        elif lst == "exit:1":
            if not r["mlex"]["end"].startswith("exit") or it != mt:
                return ("R-LEX.tokens", "lexer exit: model end=%s first difference at token %d: impl=%s model=%s" % ((r["mlex"]["end"],) + first_diff(it, mt)))
    return None


def first_diff(a, b):
    for i in range(max(len(a), len(b))):
        x = a[i] if i < len(a) else None
        y = b[i] if i < len(b) else None
        if x != y:
            return (i, str(x)[:80], str(y)[:80])
    return (-1, "", "")


def category(tag):
    if tag.startswith("mut:"):
        k = tag.split(":")[1].split("+")[0]
        return "mut:" + ("long-string" if k.startswith("long-string") else k)
    for p in ("corpus", "shipped", "random"):
        if tag.startswith(p):
            return p
    if tag.startswith("include-"):
        return "include-graph"
    if tag.startswith(("timeout:", "delay:", "stmt:", "tcp:", "tcp-flags:", "tcpwrap:", "loglevel:")):
        return "directed:" + tag.split(":")[0]
    return "directed"


def nontrivial(r):
    """a case is non-trivial when the real parser got past the first token: it produced at least 3 tokens, or
    entered the string / include machinery, or was accepted"""
    l = r["lex"]
    n = 0 if l is None or l.get("toks", "-") == "-" else l["toks"].count(",") + 1
    return n >= 3 or (r["conf"] is not None and r["conf"]["stage"] != "0")


# ====================================================================== shrinking
def shrink(ctx, impl, case, sig, budget=12):
    """ddmin on the bytes of the file that carries the failure, keeping the same monitor (clause, site)"""
    files = list(case["files"])

    def fails(fs):
        r = run_impl(ctx, impl, [("s0", "conf", fs)]).get("s0")
        m = monitor(r)
        return m is not None and (m[0], m[1]) == sig
    # try dropping whole extra files first
    rounds = 0
    for t in range(len(files) - 1, -1, -1):
        data = files[t][1]
        n = 2
        while len(data) >= 2 and rounds < budget:
            rounds += 1
            step = max(1, len(data) // n)
            cands = [data[:i] + data[i + step:] for i in range(0, len(data), step)]
            jobs = [("s%d" % k, "conf", files[:t] + [(files[t][0], cd)] + files[t + 1:]) for k, cd in enumerate(cands[:32])]
            rs = run_impl(ctx, impl, jobs)
            hit = None
            for k, cd in enumerate(cands[:32]):
                m = monitor(rs.get("s%d" % k))
                if m is not None and (m[0], m[1]) == sig:
                    hit = cd
                    break
            if hit is not None:
                data = hit
                files[t] = (files[t][0], data)
                n = max(n - 1, 2)
            elif step == 1:
                break
            else:
                n = min(n * 2, len(data))
    return dict(tag=case["tag"] + ":shrunk", files=files)


# ====================================================================== entry points
def run(ctx, V):
    proofs_ok = vlib.proof_gate(ctx, V, extract=["Extract/ExLexer.vo"])
    impl, model, codes, msgs = build(ctx)
    oracle = Oracle(impl)
    rng = ctx.rng
    files = shipped(ctx)
    bases = base_cases(files)
    quick = ctx.tier == "quick"
    cases = load_corpus() + directed_cases() + include_cases(rng) + bases
    cases += truncation_cases(bases, per_file=4) if quick else truncation_cases(bases, step=97)
    cases += mutation_cases(rng, bases, 1500 if quick else 30000)
    cases += random_cases(rng, 300 if quick else 6000)
    V.rule = ("corpus + directed boundary cases (string lengths 8189..8200/20000, every escape, numeric limits, every refusal class, "
              "include graphs: chains 0..12, self, cycle, diamond, missing, names of 0/1/2 bytes, EOF inside string/include state) + "
              "one accepted configuration around every shipped .dev/.conf file + mutations of those (delete/duplicate/swap/replace/insert "
              "tokens, delete/duplicate/swap sections, truncation (random and systematic: 4 offsets per shipped file in quick, every 97th byte in thorough), spliced arbitrary bytes incl. NUL and >= 0x80, long strings, odd numbers) + "
              "random byte/token soups; each case = real conf_init (+ first connect when accepted) and real token dump vs the extracted model; "
              "non-trivial = the real lexer returned >= 3 tokens or the configuration was accepted; distinct by hash of all file contents")
    ctx.log("cases: %d" % len(cases))
    t0 = time.time()
    B = 700
    viol, mism = {}, []
    for off in range(0, len(cases), B):
        batch = cases[off:off + B]
        for r in evaluate(ctx, impl, model, codes, msgs, oracle, batch):
            c = r["case"]
            canon = hashlib.sha1(b"\0".join(n + b"\0" + d for n, d in c["files"])).hexdigest()
            V.case(canon, nontrivial=nontrivial(r))
            V.count("kind:" + category(c["tag"]))
            V.count("impl:" + impl_class(r["conf"], msgs))
            if r["mconf"] is not None and "site" in r["mconf"]:
                V.count("model-site:%s/%s" % (r["mconf"]["class"], r["mconf"]["site"]))
            if errno_dependent(r["mconf"]):
                V.count("errno-dependent")
                V.count("errno-dependent:impl-took-" + ("stale" if impl_class(r["conf"], msgs) == model_class(r["mconf"], True) else "fresh"))
            if len(V.samples) < 6 and c["tag"].startswith(("mut:", "include", "stmt")) and sum(len(d) for _, d in c["files"]) < 700:
                V.sample(dict(tag=c["tag"], files=show(c), implementation=impl_class(r["conf"], msgs), model=model_class(r["mconf"])))
            m = monitor(r["conf"])
            if m is None and r["lex"] is not None:
                ml = monitor(dict(r["lex"], stage="0")) if r["lex"]["st"] not in ("exit:0",) else None
                if ml is not None and ml[0] in ("no_memerr", "no_abort", "no_hang"):
                    m = ml
            if m is not None:
                viol.setdefault((m[0], m[1]), []).append((c, m[2]))
            else:
                d = compare(r, codes, msgs)
                if d is not None:
                    mism.append((c, d))
    dt = time.time() - t0
    V.extra["cases_per_second"] = round(len(cases) / max(dt, 0.001), 1)
    V.extra["correspondence_relations"] = ["R-LEX.class (accepted / exit / exit with file::line, first connect survived)", "R-LEX.tokens (token stream incl. string and number texts)"]
    ctx.log("ran %d cases in %.1fs; monitor failures: %d kinds; mismatches: %d" % (len(cases), dt, len(viol), len(mism)))
    for (clause, site), lst in sorted(viol.items()):
        c, detail = min(lst, key=lambda x: sum(len(d) for _, d in x[0]["files"]))
        try:
            c2 = shrink(ctx, impl, c, (clause, site))
        except Exception as ex:       # shrinking is best effort
            c2 = c
        V.violation(clause, site, dict(config=show(c2, 4000), case=case_json(c2), from_case=c["tag"]), detail[:600])
    for c, (rel, detail) in mism[:20]:
        V.tie_broken("correspondence", rel, detail[:900], case=dict(config=show(c, 3000), case=case_json(c)))
    V.assumptions += [
        "the LALR(1) automaton bison generates from parse_tab.y and the DFA flex generates from parse_lex.l are not modelled: the model is a recursive-descent reading of the grammar that runs the hand-written actions at the point bison reduces them (default reductions without look-ahead) and a hand transcription of the lexer rules; R-LEX compares both on every run",
        "environment oracles of the model (host-range expansion = hostlist.c, regcomp, getaddrinfo restricted to numeric hosts/services by the harness, stat) are answered by the real functions",
        "bison's own stack limit (YYMAXDEPTH 10000: `memory exhausted` -> parse error) and exhaustion of file descriptors by > ~1000 include directives (the included FILE is never fclose()d) are outside the model; both end in exit 1 with a diagnostic",
        "cli_start (binding the listen addresses) is not run by the harness; a bad `listen` string makes powermand exit with a diagnostic there",
        "the values stored in struct timeval (IEEE rounding of strtod) are not modelled; only the accept/refuse behaviour of _strtolong/_strtodouble is",
        "errno at the strtol conversions (F30 not applied: _strtolong tests `errno == ERANGE` without clearing errno, so after an earlier strtod underflow the exact values LONG_MAX / LONG_MIN are refused with a diagnostic) is an environment oracle of the model; the theorems hold for every oracle, the driver evaluates the model under both constant answers and the comparator accepts the implementation when it equals either (cases counted as `errno-dependent`); GenLex.errno_cleared_strtol makes the oracle irrelevant once `errno = 0;` precedes the call",
    ]


def replay(ctx, V, path):
    d = json.load(open(path))
    vlib.proof_gate(ctx, V, extract=["Extract/ExLexer.vo"])
    impl, model, codes, msgs = build(ctx)
    oracle = Oracle(impl)
    cs = d.get("case")
    if d.get("verdict") == "unproved":
        cs = next((x["case"] for x in d["no_longer_checks"] if x.get("case")), None)
    if not cs:
        print("replay file carries no case (proof-only failure): re-run ./check C18")
        return 1
    cj = cs["case"]
    case = dict(tag=cj["tag"], files=[(unhx(n), unhx(c)) for n, c in cj["files"]])
    r = evaluate(ctx, impl, model, codes, msgs, oracle, [case])[0]
    print("configuration:", json.dumps(show(case, 2000), indent=1))
    print("implementation conf_init:", {k: (v if k != "err" else v[:500]) for k, v in (r["conf"] or {}).items()})
    print("implementation tokens   :", impl_tokens(r["lex"], codes)[:60])
    print("model tokens            :", r["mlex"])
    print("model conf_init         :", r["mconf"], "(e* = with a stale ERANGE in errno at every strtol)")
    m = monitor(r["conf"])
    c = compare(r, codes, msgs)
    print("monitor:", m if m else "property holds on this case")
    print("correspondence:", c if c else "implementation and model agree")
    return 1 if (m or c) else 0
