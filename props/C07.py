"""C07 - no device behaviour can crash or corrupt the daemon (DESIGN §5 C07), device layer.
Also the shared library of the device-layer checks C05 / C10 / C12: hostile R-DEV histories, the exact correspondence with
Model.DevHarness (reusing props/C08.py), and the property monitors evaluated on the IMPLEMENTATION's own trace."""
import os, json, re
from concurrent.futures import ThreadPoolExecutor
import vlib, pmgen, pmcheck, C08

HX = lambda b: (b if isinstance(b, bytes) else b.encode("latin-1")).hex() or "-"
JUNK = [b"\x00", b"\xff", b"\xff\xfd\x01", b"\xff\xfb\x03\xff\xfe\x18", b"\x80\x81\xfe", b"\r\n", b"\x00\x00ok\n", b"\xff\xff", b"\x1b[2J",
        bytes(range(256)), b"plug :ON", b"p1 \n", b" ON\n", b"\n\n\n", b"\xc3\xa9", b"ready\n\x00", b"done", b"x" * 1500]


def uniq_clients(ops):
    out, n = [], 100
    for o in ops:
        if o.startswith("ENQ "):
            w = o.split(); n += 1; w[2] = str(n); o = " ".join(w)
        out.append(o)
    return out


def hostile(rng, ops, ndev):
    """inject device misbehaviour before passes: binary junk (NUL, 0xFF, IAC, >= 0x80), floods beyond 64 KiB, peer close, refused
    connects (all three kinds: plan fail, pending + finish failure, pending + close), clock jumps"""
    out = []
    flood_left = 0
    for o in ops:
        if o == "PASS":
            r = rng.random()
            d = rng.randrange(ndev)
            if flood_left > 0:
                out.append("FEED %d %s" % (fd, HX(bytes(rng.choice([0, 255, 65, 10, 200]) for _ in range(rng.choice([900, 1000, 4000, 30000])))))); flood_left -= 1
            elif r < 0.22:
                out.append("FEED %d %s" % (d, HX(b"".join(rng.choice(JUNK) for _ in range(rng.randint(1, 4))))))
            elif r < 0.26:
                flood_left = rng.randint(2, 5); fd = d
                out.append("FEED %d %s" % (d, HX(bytes(rng.randrange(256) for _ in range(70000)))))
            elif r < 0.33:
                out.append("PEERCLOSE %d" % d)
            elif r < 0.38:
                out.append("PLAN %d %s" % (d, " ".join(rng.choice(["fail", "fail", "pending", "now"]) for _ in range(3))))
            elif r < 0.42:
                out.append("FINISH %d %d" % (d, rng.choice([0, 0, 1])))
        out.append(o)
    return out


def gen_case(rng, consts, style):
    cfg, asts, ops = C08.gen_case(rng, consts, rng.choice(["gen", "gen2", "random"]) if style == "any" else style)
    ops = uniq_clients(ops)
    if rng.random() < 0.75:
        ops = hostile(rng, ops, len(cfg.devs))
    return cfg, asts, ops


def directed(consts, rng):
    """aimed at the case splits of the proofs: time-out exactly at the deadline, peer close at every position, refuse x3, floods, pings,
    two devices with one sick"""
    out = []
    hx = lambda x: x.encode("latin-1").hex()
    on = consts[pmgen.KINDS[pmgen.CLIENT_COMS["on"]]]

    def base(ndev=1, ping=0, timeout=5.0):
        cfg = pmgen.Config(); asts = {}
        for di in range(ndev):
            kinds = ["login", "on", "off", "status"] + (["ping"] if ping else [])
            d = pmgen.Dev("d%d" % di, kinds, hardwired=["p1", "p2"], timeout=timeout, ping=ping)
            asts[d.name] = {k: pmgen.parse_script_text(pmgen.script_text(k)) for k in kinds}
            cfg.devs.append(d)
            cfg.node_lines.append(("n%d,n%d" % (2 * di, 2 * di + 1), d.name, "p1,p2"))
        return cfg, asts

    def hist(close_at=None, plans="now now now now", deadline=None, ndev=1, sick=None, ping=0, flood=False):
        cfg, asts = base(ndev, ping)
        ops = ["NOW 1000000"] + ["PLAN %d %s" % (i, plans if i == 0 or sick is None else "now now now") for i in range(ndev)] + ["INIT", "PASS"]
        t = 1000000
        steps = []
        for i in range(ndev):
            steps.append("FEED %d %s" % (i, hx("ready\n")))
        steps += ["PASS", "NEWARGS " + hx("n0"), "ENQ %d 101 1 0 %s" % (on, hx("n0")), "PASS", "PASS", "FEED 0 " + hx("p1 OK\ndone\n"), "PASS", "PASS",
                  "NEWARGS " + hx("n1"), "ENQ %d 102 0 1 %s" % (on, hx("n1")), "NEWARGS " + hx("n0"), "ENQ %d 103 0 2 %s" % (on, hx("n0")), "PASS", "PASS"]
        if ndev > 1:
            steps += ["NEWARGS " + hx("n2"), "ENQ %d 104 0 3 %s" % (on, hx("n2")), "PASS", "FEED 1 " + hx("p1 OK\ndone\n"), "PASS"]
        k = 0
        for s in steps:
            if s == "PASS":
                if close_at == k: ops.append("PEERCLOSE %d" % (sick if sick is not None else 0))
                if flood and k == 3: ops.append("FEED 0 " + HX(bytes([0, 255, 200, 10]) * 17000))
                t += 100000; ops += ["NOW %d" % t, "PASS"]; k += 1
            else:
                ops.append(s)
        if deadline is not None:          # the last request was stamped in its first pass; jump exactly to / just before the deadline
            ops += ["NOW %d" % (t + deadline), "PASS", "NOW %d" % (t + 5000000), "PASS", "NOW %d" % (t + 5000001), "PASS"]
        for j in range(1, 9):             # a long quiet tail: reconnect pacing
            ops += ["NOW %d" % (t + 6000000 + j * 700000), "PASS"]
        return cfg, asts, ops

    out.append(hist())
    for k in range(0, 8): out.append(hist(close_at=k))
    for dl in (4799999, 4800000, 4800001, 4900000): out.append(hist(deadline=dl))
    out.append(hist(plans="fail fail fail now now"))
    out.append(hist(plans="pending fail pending now now"))
    out.append(hist(flood=True))
    out.append(hist(ping=2.0))
    for k in (1, 3, 5): out.append(hist(ndev=2, sick=1, close_at=k))
    out.append(hist(ndev=2, sick=1, plans="now now"))
    return [(c, a, uniq_clients(o)) for c, a, o in out]


# ------------------------------------------------------------------------------------------- trace of the implementation
class Pass:
    __slots__ = ("now", "evs", "wrote", "tmo", "devs", "enq_since", "init")


def parse_dev(l):
    w = l.split()
    d = dict(x.split("=", 1) for x in w[2:])
    acts = []
    if d["acts"] != "-":
        for a in d["acts"].split("|"):
            f = a.split(":")
            acts.append(dict(com=int(f[0]), client=int(f[1]), err=int(f[2]), stamp=None if f[3] == "-" else int(f[3]), exec=f[4]))
    return dict(idx=int(w[1]), cs=int(d["cs"]), li=int(d["li"]), fd=int(d["fd"]), retry=int(d["retry"]), lastretry=int(d["lastretry"]), acts=acts,
                frm=d["from"], to=d["to"], line=l)


def trace(ops, out):
    """[(op, Pass|count|None)] from the implementation's output blocks"""
    blocks = C08.split_blocks(out)
    bi, now, res, enq = 0, 0, [], False
    for o in ops:
        if o.startswith("NOW "): now = int(o.split()[1])
        if o == "INIT" or o == "PASS" or o.startswith("ENQ "):
            if bi >= len(blocks): break
            b = blocks[bi]; bi += 1
            if o.startswith("ENQ "):
                enq = True
                res.append((o, int(b[-1].split()[1]) if b[-1].startswith("COUNT") else None)); continue
            p = Pass(); p.now = now; p.evs = [l for l in b if l.startswith("EV ")]; p.wrote = [l for l in b if l.startswith("WROTE ")]
            t = [l for l in b if l.startswith("TMO ")]; p.tmo = None if not t or t[0] == "TMO none" else int(t[0].split()[1])
            p.devs = [parse_dev(l) for l in b if l.startswith("DEV ")]; p.enq_since = enq; p.init = (o == "INIT"); enq = False
            res.append((o, p))
        else:
            res.append((o, None))
    return res


BACKOFF = None


def monitors(cfg, ops, out, rc, consts, which):
    """the theorems' conclusions evaluated on the implementation's own behaviour -> [(clause, site, detail)]"""
    bad = []
    login = consts["PM_LOG_IN"]
    tr = trace(ops, out)
    timeouts = [int(round(d.timeout * 1000000)) for d in cfg.devs]
    prev = None
    queued_at_enq = []
    for o, p in tr:
        if not isinstance(p, Pass):
            continue
        done = [l.split() for l in p.evs if l.startswith("EV DONE")]
        # which completion events belong to which device: dev_post_poll visits the devices in order, each device's events are contiguous and its
        # queue only loses a prefix; exact only when nothing was enqueued since the previous dump (the dump is taken after passes only)
        alloc = None
        if prev is not None and not p.init and not p.enq_since and len(prev.devs) == len(p.devs):
            dn_idx = [k for k, l in enumerate(p.evs) if l.startswith("EV DONE")]
            alloc, k = {}, 0
            for d in p.devs:
                i = d["idx"]
                q0 = [a["client"] for a in prev.devs[i]["acts"] if a["client"] >= 100]
                q1 = [a["client"] for a in d["acts"] if a["client"] >= 100]
                g = 0
                while g < len(q0) and q0[g:] != q1[:len(q0) - g]: g += 1
                alloc[i] = dn_idx[k:k + g]; k += g
                if [int(p.evs[j].split()[2]) for j in alloc[i]] != q0[:g]: alloc = None; break
            if alloc is not None and k != len(dn_idx): alloc = None
        for d in p.devs:
            i = d["idx"]
            if "fd" in which:        # C07_fd_state
                if (d["fd"] == 0) != (d["cs"] == 0):
                    bad.append(("fd-state", "dev_post_poll", "device %d: fd=%d but connect_state=%d" % (i, d["fd"], d["cs"])))
                if d["li"] and d["cs"] != 2:
                    bad.append(("fd-state", "logged-in-unconnected", "device %d: logged_in with connect_state=%d" % (i, d["cs"])))
            if "login" in which and not p.init:     # C10_login_first
                head_login = bool(d["acts"]) and d["acts"][0]["com"] == login
                if head_login != (d["cs"] == 2 and d["li"] == 0):
                    bad.append(("login-first", "head", "device %d: cs=%d li=%d but head-is-login=%s" % (i, d["cs"], d["li"], head_login)))
                if any(a["com"] == login for a in d["acts"][1:]):
                    bad.append(("login-first", "login-not-head", "device %d: a login action behind the head: %s" % (i, d["line"][-200:])))
                # C12_restart_from_first / C08_fresh_start: while the login of a (re)established connection is in progress nothing else
                # executes, and the action it pre-empted was rewound: everything behind the login is at its first statement, flags clear
                if head_login:
                    for a in d["acts"][1:]:
                        ctxs = a["exec"].split(";")
                        f = ctxs[0].split("/")
                        if len(ctxs) != 1 or f[0] != "0" or f[1] != "0" or f[2] != "n":
                            bad.append(("restart", "not-rewound", "device %d: login in progress on a new connection, but the action of client %d behind it is not at its first statement (exec %s): "
                                        "it would resume mid-script on a session that never saw its earlier statements" % (i, a["client"], a["exec"][:80])))
            if "timer" in which and not p.init and d["acts"]:      # C04 device side / C12 no busy loop
                h = d["acts"][0]
                if h["stamp"] is not None:
                    if p.tmo is None or not (0 < p.tmo <= h["stamp"] + timeouts[i] - p.now):
                        bad.append(("timer", "head-deadline", "device %d: head stamped %d (+%d), now %d, requested time-out %s" % (i, h["stamp"], timeouts[i], p.now, p.tmo)))
                elif any(a["client"] >= 100 for a in d["acts"]):
                    bad.append(("timer", "unstamped-head", "device %d: head not stamped after a pass with client actions queued" % i))
            if prev is not None and i < len(prev.devs) and not p.init:
                q0 = [a["client"] for a in prev.devs[i]["acts"] if a["client"] >= 100]
                q1 = [a["client"] for a in d["acts"] if a["client"] >= 100]
                if "fifo" in which:  # C10_fifo: the queue loses a prefix (completed, in that order) and gains a suffix
                    k = 0
                    while k < len(q0) and q0[k:] != q1[:len(q0) - k]: k += 1
                    gone, new = q0[:k], q1[len(q0) - k:]
                    dn = [int(x[2]) for x in done]
                    it = iter(dn)                      # completions of several devices interleave: `gone` must be a subsequence
                    if not all(any(c == x for x in it) for c in gone):
                        bad.append(("fifo", "completion-order", "device %d: queue %s -> %s but completions in this pass were %s" % (i, q0, q1, dn)))
                    if any(c in q0 for c in new) or (not p.enq_since and new):
                        bad.append(("fifo", "queue-order", "device %d: queue %s -> %s is not drop-a-prefix/append" % (i, q0, q1)))
                if "timeout" in which and alloc is not None:   # C12_timeout_fails_queue: the head that _process_action finds past its deadline takes the whole queue with it
                    h0 = prev.devs[i]["acts"][0] if prev.devs[i]["acts"] else None
                    own = alloc[i]
                    first_own = own[0] if own else len(p.evs)
                    # the head of the previous dump is NOT what _process_action saw if this device disconnected / connected earlier in the pass
                    # (descriptor error -> _reconnect drops a head login; a connection that came up puts a fresh login in front)
                    moved = (any(l in ("EV CONN %d" % i, "EV DISC %d" % i) for l in p.evs[:first_own]) or (prev.devs[i]["cs"] == 1 and d["cs"] == 2)
                             or (bool(d["acts"]) and d["acts"][0]["com"] == login and len(d["acts"]) > 1 and h0 is not None and h0["com"] != login
                                 and d["acts"][1]["client"] == h0["client"] and d["acts"][1]["stamp"] == h0["stamp"]))
                    if h0 and h0["stamp"] is not None and h0["stamp"] + timeouts[i] <= p.now and not moved:
                        if q1 and any(c in q1 for c in q0):
                            bad.append(("timeout-abort", "left-queued", "device %d: head deadline %d passed at %d but %s still queued | before: %s | after: %s | events: %s" % (i, h0["stamp"] + timeouts[i], p.now, [c for c in q0 if c in q1], prev.devs[i]["line"][:300], d["line"][:300], p.evs[:12])))
                        errs = [int(p.evs[j].split()[3]) for j in own]
                        if len(own) < len(q0) or 0 in errs:
                            bad.append(("timeout-abort", "not-failed", "device %d: queue %s behind a timed-out head got completions %s (this device's share of the pass)" % (i, q0, errs)))
                if "backoff" in which:   # C12_backoff_pass
                    nconn = sum(1 for l in p.evs if l == "EV CONN %d" % i)
                    pr, pl = prev.devs[i]["retry"], prev.devs[i]["lastretry"]
                    if nconn > 1:
                        bad.append(("backoff", "two-attempts", "device %d: %d connect attempts in one pass" % (i, nconn)))
                    if nconn == 1 and not p.enq_since and pr > 0 and pl + BACKOFF[min(pr - 1, len(BACKOFF) - 1)] > p.now:
                        bad.append(("backoff", "spacing", "device %d: attempt at %d, previous at %d with retry_count %d" % (i, p.now, pl, pr)))
                    if nconn == 1 and (d["lastretry"] != p.now or (not p.enq_since and d["retry"] != pr + 1)):
                        bad.append(("backoff", "bookkeeping", "device %d: after an attempt last_retry=%d retry=%d (before %d), now %d" % (i, d["lastretry"], d["retry"], pr, p.now)))
                    if nconn == 0 and not p.enq_since and (d["retry"] != pr or d["lastretry"] != pl):
                        bad.append(("backoff", "bookkeeping", "device %d: retry fields moved without an attempt" % i))
        if "live" in which:           # C10_callbacks_live: telemetry / diagnostics only for a client that is completed later in the pass or still queued
            queued_after = set(a["client"] for d in p.devs for a in d["acts"])
            for k, l in enumerate(p.evs):
                if l.startswith("EV TELE ") or l.startswith("EV DIAG "):
                    c = int(l.split()[2])
                    later = any(x.startswith("EV DONE %d " % c) for x in p.evs[k + 1:])
                    if not later and c not in queued_after:
                        bad.append(("callbacks-live", "after-completion", "%s for client %d although its action is neither completed later in this pass nor queued any more: %s" % (l.split()[1], c, p.evs[max(0, k - 3):k + 2])))
        if "timer" in which and p.tmo is not None and p.tmo <= 0:
            bad.append(("timer", "zero-timeout", "requested time-out %d" % p.tmo))
        prev = p
    if "count" in which:             # conservation at the end: never two completions for one client id beyond what was queued
        dn = {}
        for o, p in tr:
            if isinstance(p, Pass):
                for l in p.evs:
                    if l.startswith("EV DONE"): dn[int(l.split()[2])] = dn.get(int(l.split()[2]), 0) + 1
        enq = {}
        for o, p in tr:
            if o.startswith("ENQ ") and p is not None: enq[int(o.split()[2])] = p
        left = {}
        if prev is not None:
            for d in prev.devs:
                for a in d["acts"]: left[a["client"]] = left.get(a["client"], 0) + 1
        for c, n in enq.items():
            if dn.get(c, 0) + left.get(c, 0) != n:
                bad.append(("conservation", "count", "client %d: %d actions queued, %d completed, %d still queued" % (c, n, dn.get(c, 0), left.get(c, 0))))
    return bad


def correspond(ctx, V, cases, which, consts, devh, enq, model, tag="R-DEV"):
    """run every case through the real device layer and the extracted model; compare block by block; run the monitors on the C side"""
    global BACKOFF
    BACKOFF = [int(x) for x in re.search(r"backoff_table : list Z := \[([^\]]*)\]", open(os.path.join(ctx.coq, "Gen/GenConsts.v")).read()).group(1).split(";")]
    with ThreadPoolExecutor(16) as ex:
        outs = list(ex.map(lambda ic: (C08.run_impl(devh, ctx.scratch, ic[0], ic[1][0], ic[1][2]), C08.devtab_from_enq(enq, ctx.scratch, ic[0], ic[1][0])), enumerate(cases)))
        minputs = ["\n".join(C08.model_input(cfg, asts, tab, ops, consts)) + "\n" for (cfg, asts, ops), ((rc, o, e), (rc2, tab, e2)) in zip(cases, outs)]
        mouts = list(ex.map(lambda s: vlib.sh(["timeout", "-s", "KILL", "90", model], shell=False, inp=s.encode(), timeout=100), minputs))
    for (cfg, asts, ops), ((rc, o, e), (rc2, tab, e2)), (mrc, mo, me) in zip(cases, outs, mouts):
        ib, mb = C08.split_blocks(o), C08.split_blocks(mo)
        nontriv = any(l.startswith("EV DONE") or l.startswith("EV DISC") for l in o.splitlines())
        V.case((cfg.text(), tuple(ops)), nontrivial=nontriv)
        V.count("ops", len(ops)); V.count("impl_rc:%d" % rc)
        for l in o.splitlines():
            if l.startswith("EV "): V.count("ev:" + l.split()[1] + (":" + l.split()[3] if l.startswith("EV DONE") else ""))
        for op in ops:
            k = op.split()[0]
            if k in ("PEERCLOSE", "FINISH"): V.count("op:" + k)
            if k == "FEED": V.count("feed:big" if len(op) > 4000 else "feed")
        case = dict(config=cfg.text(), ops=[x if len(x) < 300 else x[:300] + "...(%d chars)" % len(x) for x in ops], full_ops_sha=vlib.hashlib.sha1("\n".join(ops).encode()).hexdigest())
        model_outcome = [l for l in mo.splitlines() if l.startswith("OUTCOME ")]
        if mrc != 0:
            V.tie_broken("correspondence", tag, "model driver failed: %s" % me[-600:], case=case); continue
        if model_outcome: V.count("model:" + model_outcome[0])
        diff = None
        for k in range(max(len(ib), len(mb))):
            a = ib[k] if k < len(ib) else ["<missing>"]; b = mb[k] if k < len(mb) else ["<missing>"]
            if b and b[-1].startswith("OUTCOME "):
                if rc == 0 or k < len(ib) - 1: diff = (k, a, b)
                break
            if a != b:
                diff = (k, a, b); break
        if rc != 0 and not model_outcome and diff is None:
            diff = (len(ib), ["<implementation died rc=%d: %s>" % (rc, e[-400:])], ["<model continues>"])
        if rc != 0 or model_outcome:
            V.violation("daemon-aborts", model_outcome[0] if model_outcome else "impl rc=%d" % rc, dict(case, impl_tail=o.splitlines()[-4:], stderr=e[-500:]),
                        "the device layer aborts / crashes on this history of device behaviour")
        for clause, site, detail in monitors(cfg, ops, o, rc, consts, which):
            V.violation(clause, site, case, detail)
        if diff:
            k, a, b = diff
            da = [x[:300] for x in a if x not in b][:5]; db = [x[:300] for x in b if x not in a][:5]
            V.tie_broken("correspondence", tag, "first difference in output block %d\nimpl only: %s\nmodel only: %s" % (k, da, db), case=case)
        V.sample(dict(config=cfg.text()[:400], ops=[x[:80] for x in ops[:24]]), limit=2)


def setup(ctx, V):
    import C01
    proofs_ok = vlib.proof_gate(ctx, V, extract=["Extract/ExDevice.vo", "Extract/ExEnqueue.vo"])
    consts = pmgen.load_genconsts(ctx.coq)
    return consts, C08.build_dev(ctx), C01.build_enq(ctx), C08.build_model(ctx)


ALL = ("fd", "login", "timer", "fifo", "timeout", "backoff", "count", "live")


def load_corpus(pid):
    d = os.path.join(vlib.VERIF, "corpus", pid)
    out = []
    for f in sorted(os.listdir(d)) if os.path.isdir(d) else []:
        j = json.load(open(os.path.join(d, f)))
        out.append(j)
    return out


class _CorpusCfg:
    """a configuration kept as text (corpus cases): what run_impl and the monitors need"""
    class _D:
        def __init__(self, t): self.timeout = t
    def __init__(self, text, timeouts): self._text, self.devs = text, [self._D(t) for t in timeouts]
    def text(self): return self._text


def corpus_monitor_cases(ctx, V, which, consts, devh):
    """corpus/<pid>/*.json of kind rdev-monitor: histories on which a monitor clause once alarmed although the implementation is right
    (must pass), or on which it was right (must be reported again if the defect returns): implementation + monitors, no model"""
    global BACKOFF
    for k, c in enumerate(load_corpus(ctx.pid)):
        if c.get("kind") != "rdev-monitor": continue
        cfg = _CorpusCfg(c["config"], c["timeouts"])
        rc, o, e = C08.run_impl(devh, ctx.scratch, 900000 + k, cfg, c["ops"])
        V.case(("corpus", c["config"], tuple(c["ops"])), nontrivial=True); V.count("corpus-rdev-monitor")
        case = dict(config=c["config"], ops=[x if len(x) < 300 else x[:300] + "...(%d chars)" % len(x) for x in c["ops"]], corpus=c.get("what", ""))
        if rc != 0:
            V.violation("daemon-aborts", "impl rc=%d" % rc, dict(case, stderr=e[-500:]), "the device layer aborts / crashes on a corpus history"); continue
        for clause, site, detail in monitors(cfg, c["ops"], o, rc, consts, which):
            V.violation(clause, site, case, detail)


def run_devlayer(ctx, V, which, n_quick, n_thorough, pmsim_monitors, pmsim_styles, pmsim_n, extra_rule=""):
    consts, devh, enq, model = setup(ctx, V)
    n = n_quick if ctx.tier == "quick" else n_thorough
    # C08's directed histories are aimed at the repaired crash defects (F6 bytes >= 0x80 in telemetry, F7 empty capture, F9, F26, F32)
    cases = [(c, a, uniq_clients(o)) for c, a, o in C08.directed_cases(consts)] + directed(consts, ctx.rng) + [gen_case(ctx.rng, consts, "any") for _ in range(n)]
    correspond(ctx, V, cases, which, consts, devh, enq, model)
    corpus_monitor_cases(ctx, V, which, consts, devh)
    rule_rdev = ("R-DEV (device layer of the scratch copy's device.c through dev_initial_connect/dev_enqueue_actions/dev_pre_poll/poll/dev_post_poll, STUB transports "
                 "on socket pairs, virtual clock) vs extracted Model.DevHarness, compared after EVERY pass (callbacks, bytes written, requested time-out, each "
                 "device's state/queue/exec stacks/buffers, every Arg): directed histories (time-out exactly at / 1 us around the deadline, peer close before every "
                 "pass, refused connects of all three kinds, 68 KB flood, ping, two devices with one sick) + generated configurations/scripts of props/C08.py with "
                 "injected hostile device behaviour (NUL / 0xFF / IAC / >= 0x80 junk, 70 KB floods, peer close, finish failure, refused plans); monitors on the "
                 "IMPLEMENTATION's trace: " + ", ".join(which) + ". " + extra_rule)
    # whole-daemon search on pmsim (real transports device_tcp.c / device_pipe.c under the virtual OS): testing, not proof
    exe = None
    if pmsim_monitors:
        import pmsim
        exe = pmsim.build(ctx)
        scs = [pmcheck.gen_scenario(ctx.rng, style=pmsim_styles[i % len(pmsim_styles)]) for i in range(pmsim_n if ctx.tier == "quick" else pmsim_n * 20)]
        pmcheck.run_batch(ctx, V, exe, scs, list(pmsim_monitors), ctx.pid.lower())
    V.rule = rule_rdev + " + whole-daemon histories on pmsim (unmodified powermand, real tcp/pipe transports under the virtual OS; monitors: " + ", ".join(pmsim_monitors) + ") as search"
    return exe


# ------------------------------------------------------------------------------------------- telnet reply floods (F38)
TELNET_CONF = """specification "s" {
	timeout %s
	plug name { "1" }
	script login {
		expect "login: "
		send "%s\\n"
		expect "ready\\n"
	}
	script on { send "ON %%s\\n" expect "ok\\n" }
}
device "d0" "s" "hd0:7000"
node "t0" "d0" "1"
"""


def telnet_flood_cases(rng, n):
    """raw pmsim histories against a tcp device whose peer floods telnet option requests while it does / does not read: the option replies
    pile up in dev->to (up to MAX_DEV_BUF, then the oldest are overwritten) and a send statement starts on top of them"""
    out = []
    for f in load_corpus("C07"):
        if f.get("kind") == "pmsim-raw":
            rounds = []
            for k, evs in f["rounds_rle"]: rounds += [evs] * k
            out.append(dict(name="corpus:" + f["what"][:40], config=f["config"], rounds=rounds))
    # every option number class once, in a short history (the option name table of the debug output has 40 entries; numbers go up to 255)
    for opt in (0, 39, 40, 41, 49, 127, 200, 254, 255):
        units = b"".join(bytes([255, c, opt]) for c in (253, 251, 254, 252))
        rounds = [["ADV 1000", "CONNDONE conn0 ok"], ["ADV 1000", "IN conn0 " + units.hex()], ["ADV 1000"], ["ADV 1000", "IN conn0 " + b"login: ".hex()],
                  ["ADV 1000"], ["ADV 1000"], ["ADV 1000", "IN conn0 " + b"ready\n".hex()]] + [["ADV 1000"]] * 3
        out.append(dict(name="option:%d" % opt, config=TELNET_CONF % (10, "a"), rounds=rounds))
    for i in range(n):
        opt = rng.choice([1, 3, 6, 24, 31, 32, 33, 34, 35, 39, 3, 1, 0, 200])
        cmd = rng.choice([253] * 9 + [251, 254, 252])             # DO (answered) mostly; WILL / DONT / WONT are ignored
        unit = bytes([255, cmd, opt])
        per = rng.choice([340, 341, 300, 100, 21845])
        total = rng.choice([66000, 70000, 131072, 40000])
        stall = rng.random() < 0.85
        wcap = None if stall or rng.random() < 0.5 else rng.choice([0, 10, 1000])
        sendstr = "a" * rng.choice([1, 5, 40, 900])
        rounds = [["ADV 1000", "CONNDONE conn0 ok"], ["ADV 1000"] + (["STALL conn0 1"] if stall else []) + (["WCAP conn0 %d" % wcap] if wcap is not None else [])]
        sent = 0
        while sent < total:
            rounds.append(["ADV 1000", "IN conn0 " + (unit * per).hex()]); sent += 3 * per
            if per > 341: rounds += [["ADV 1000"]] * (3 * per // 1000 + 2)       # one read takes at most the free space of dev->from (1 KiB while it stays empty)
        rounds.append(["ADV 1000", "IN conn0 " + b"login: ".hex()])
        rounds += [["ADV 1000"]] * 3 + [["ADV 1000", "STALL conn0 0", "WCAP conn0 -1"]] + [["ADV 1000"]] * 3 + [["ADV 1000", "IN conn0 " + b"ready\n".hex()]] + [["ADV 1000"]] * 4
        out.append(dict(name="gen:%d" % i, config=TELNET_CONF % (rng.choice([10, 30]), sendstr), rounds=rounds))
    return out


def run_telnet_floods(ctx, V, exe, n):
    import pmsim

    def one(ic):
        i, c = ic
        conf = os.path.join(ctx.scratch, "tf_%d.conf" % i)
        open(conf, "w").write(c["config"])
        s = pmsim.Sim(exe, conf, stderr_path=os.path.join(ctx.scratch, "tf_%d.err" % i))
        for evs in c["rounds"]:
            if s.next_round() is None: break
            s.send(evs)
        if s.done is None:
            for _ in range(20):
                s.send(["SIG TERM"])
                if s.next_round() is None: break
            if s.done is None: s.kill()
        try: err = open(os.path.join(ctx.scratch, "tf_%d.err" % i), "rb").read().decode("latin-1")
        except OSError: err = ""
        return s.done, err, len(s.events)
    cases = telnet_flood_cases(ctx.rng, n)
    with ThreadPoolExecutor(16) as ex:
        res = list(ex.map(one, enumerate(cases)))
    for c, (done, err, nr) in zip(cases, res):
        overrun = "buffer overrun" in err
        V.case(("telnet-flood", c["config"], tuple(map(tuple, c["rounds"]))), nontrivial=True)
        V.count("telnet-flood"); V.count("telnet-flood:overrun-reached" if overrun else "telnet-flood:no-overrun")
        if not done or done.get("kind") != "return" or done.get("status") != 0:
            site = "SITE_SEND_ASSERT:telnet-reply-overrun" if "_process_send" in err and "Assertion" in err else "pmsim:%s" % (done or {}).get("kind")
            w = dict(kind="pmsim-raw", config=c["config"], rounds_rle=_rle(c["rounds"]), stderr=err[-600:], status=done)
            V.violation("daemon-aborts", site, w, "a tcp device that floods telnet option requests (replies pile up in dev->to) kills the daemon: %s" % (err[-300:],))


def _rle(rounds):
    out = []
    for r in rounds:
        if out and out[-1][1] == r: out[-1][0] += 1
        else: out.append([1, r])
    return out


WIDE_ON = ('send "ON %s\\n"\n\t\texpect "([^ \\n]+) ([^\\n]*)\\n"\n\t\t\tsetresult $1 $2 success="^OK$"\n\t\texpect "done\\n"')
WIDE_STATUS = ('send "STATUS %s\\n"\n\t\texpect "([^ \\n]+) ([^\\n]*)\\n"\n\t\t\tsetplugstate $1 $2 on="^ON$" off="^OFF$"\n\t\texpect "done\\n"')
WIDE_TEMP = ('send "STATUS_TEMP %s\\n"\n\t\texpect "([^ \\n]+) ([^\\n]*)\\n"\n\t\t\tsetplugstate $1 $2\n\t\texpect "done\\n"')
HOSTILE_TEXT = ["%s%s%s%s%s%s", "%n%n%n%n", "100%", "%d %x %p", "%999999999s", "ERR %s", "%%%", "%c%c%c%n", "a%-08.3d", "%ls", "\\x\x7f%s", "%1$s%2$n", "OK%s"]


def hostile_text_stage(ctx, V, exe, n):
    """the text a device sends for a plug - result text of a power command (309 diagnostic), state / temperature text of a query (303 value,
    telemetry) - is DATA wherever it goes: scripts whose capture groups admit any byte but newline, devices that answer with printf
    conversions and other awkward text.  The daemon must survive, keep to the protocol and shut down cleanly."""
    import random, pmgen
    scs = []
    for i in range(n):
        rng = random.Random(ctx.seed * 86028121 + i)
        cfg = pmgen.Config()
        d0 = pmgen.Dev("d0", ["login", "on", "off", "status", "status_temp"], hardwired=["p1", "p2"], transport=rng.choice(["pipe", "tcp"]), timeout=3.0)
        d0.bodies["on"] = WIDE_ON; d0.bodies["off"] = WIDE_ON.replace("ON %s", "OFF %s"); d0.bodies["status"] = WIDE_STATUS; d0.bodies["status_temp"] = WIDE_TEMP
        cfg.devs.append(d0); cfg.node_lines.append(("n0,n1", "d0", "p1,p2")); cfg.truth = {"d0": {"p1": "n0", "p2": "n1"}}
        S = [("connect",), ("wait", 0)]
        if rng.random() < 0.5: S += [("send", 0, b"telemetry\r\n"), ("wait", 0)]
        if rng.random() < 0.3: S += [("send", 0, b"exprange\r\n"), ("wait", 0)]
        for _ in range(rng.randint(2, 5)):
            S.append(("verdict", "d0", rng.choice(["p1", "p2"]), rng.choice(HOSTILE_TEXT)))
            S += [("send", 0, (rng.choice(["on n0", "off n[0-1]", "status", "status n1", "temp", "temp n0", "on n1"]) + "\r\n").encode()), ("wait", 0)]
        scs.append(pmcheck.Scenario(cfg, S, dict(style="c07-hostile-text", ncli=1)))
    pmcheck.run_batch(ctx, V, exe, scs, ["alive", "wedge", "protocol"], "c07h")
    V.count("hostile-text-histories", len(scs))


def run(ctx, V):
    exe = _run(ctx, V)
    hostile_text_stage(ctx, V, exe, 30 if ctx.tier == "quick" else 600)


def _run(ctx, V):
    exe = run_devlayer(ctx, V, ("fd", "login", "count"), 260, 6000, ["alive", "wedge"], ("faults", "mixed"), 260,
                       "C07: a non-zero exit of the harness (assert, ASan, UBSan) or an OUTCOME of the model is a violation `daemon-aborts`.")
    run_telnet_floods(ctx, V, exe, 12 if ctx.tier == "quick" else 200)
    V.rule += (" + telnet reply floods on pmsim (tcp device whose peer stops reading / reads slowly and sends 40-128 KiB of IAC DO|WILL|DONT|WONT <opt>, then the "
               "login prompt: a send statement starts on a dev->to full of option replies; corpus/C07 holds the F38 history) - the daemon must survive and shut down cleanly")
    return exe


def replay(ctx, V, path):
    rep = json.load(open(path)); print(json.dumps(rep, indent=1)[:6000]); return 0
