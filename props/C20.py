"""C20 - no resource leaks, and clean shutdown at any moment (DESIGN §5 C20)"""
import json, vlib, pmcheck
def run(ctx, V):
    pmcheck.standard_run(ctx, V, ["alive", "c20"], n_quick=600)
def replay(ctx, V, path):
    print(json.dumps(json.load(open(path)), indent=1)[:6000]); return 0
