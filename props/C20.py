"""C20 - no resource leaks, and clean shutdown at any moment (DESIGN §5 C20).
   proof gate (Properties/C20.v: descriptor ledger of the whole-daemon model) + R-SIM (every pass of every recorded run: open
   descriptors and live children of the real daemon = Daemon.open_fds / Daemon.children of the replayed model state) + the
   implementation-side monitors (quiescent ledger, clean `return 0`, nothing left open, no child left)."""
import json, os
import vlib, pmcheck, pmsim, C04


def mon_alive_or_sigterm(sess, sc):
    """like pmcheck.mon_alive, but a scenario that sends SIGTERM itself must end in a clean `return 0` at that point"""
    if not sc.tags.get("sigterm"):
        return pmcheck.mon_alive(sess, sc)
    f = sess.final or sess.sim.done or {}
    if f.get("kind") != "return" or f.get("status") != 0:
        return [("shutdown", "teardown:%s" % f.get("kind"), "SIGTERM during the script did not lead to a clean `return 0`: %s | stderr: %s" % (f, sess.stderr()[-400:]))]
    bad = []
    if f.get("leaks"): bad.append(("shutdown", "open-descriptors", "left open at exit: %s" % f["leaks"]))
    if f.get("kids"): bad.append(("shutdown", "children", "%d children neither killed nor reaped at exit" % f["kids"]))
    return bad


def mon_heap_steady(sess, sc):
    """the same request repeated many times on a settled daemon: the heap in use (mallinfo, sampled at every poll) after the
    24th repetition must not exceed the one after the 12th (testing only: allocator noise is avoided by comparing identical work)"""
    rep = sc.tags.get("repeat")
    if not rep or not sess.alive_after_script or sess.overrun or sess.wedged:
        return []
    k, line, n = rep
    # rounds at which client k's output ended with a prompt, in order: take the memory sample of the following poll
    marks, seen = [], 0
    out = b""
    for (rnd, now, tmo, interest, devs, vfds, kids, mem), r in zip(sess.timeouts, sess.rounds):
        for l in r.lines:
            w = l.split()
            if w[0] == "WR" and w[1] == "c%d" % k and len(w) > 2 and w[2] != "-":
                out += bytes.fromhex(w[2])
        c = out.count(b"powerman> ")
        if c > seen and mem is not None:
            marks += [mem] * (c - seen); seen = c
    if len(marks) < n:
        return []
    tail = marks[-n:]
    a, b = tail[n // 2 - 1], tail[n - 1]
    if b > a:
        return [("heap", "grows-per-request", "`%s` repeated %d times: heap in use after repetition %d = %d bytes, after repetition %d = %d bytes" % (line, n, n // 2, a, n, b))]
    return []


pmcheck.MONITORS["alive-or-sigterm"] = mon_alive_or_sigterm
pmcheck.MONITORS["heap-steady"] = mon_heap_steady


def run(ctx, V):
    proofs_ok = vlib.proof_gate(ctx, V, extract=["Extract/ExDaemon.vo", "Extract/ExEnqueue.vo"])
    exe = pmsim.build(ctx)
    n = 400 if ctx.tier == "quick" else 8000
    C04.rsim(ctx, V, exe, n, styles=("faults", "mixed", "healthy", "faults"), prefix="c20", monitors=("alive-or-sigterm", "c20", "heap-steady"), gen=gen)


def gen(rng, style="mixed"):
    """scenarios with many short client sessions, abrupt client drops, device failures and reconnections, and a SIGTERM at a random point"""
    sc = pmcheck.gen_scenario(rng, style=style)
    S = sc.script
    ncli = sc.tags["ncli"]
    # abrupt ends of clients at random positions
    for k in range(ncli):
        if rng.random() < 0.35:
            pos = rng.randint(2 * ncli, len(S))
            S.insert(pos, ("raw", [rng.choice(["EOF c%d", "RST c%d", "FULLCLOSE c%d"]) % k]))
    # extra short-lived sessions
    for j in range(rng.choice([0, 1, 2, 3])):
        k = sc.tags["ncli"]; sc.tags["ncli"] = k + 1
        pos = rng.randint(0, len(S))
        S[pos:pos] = [("connect", k), ("wait", k), ("send", k, rng.choice([b"nodes\r\n", b"status\r\n", b"device\r\n", b"help\r\n"])), ("wait", k),
                      rng.choice([("send", k, b"quit\r\n"), ("raw", ["EOF c%d" % k]), ("raw", ["RST c%d" % k])])]
    # clients that send a device command and hang up at once (`echo on t1 | nc`): the command must still run to completion and
    # the client record must be reaped afterwards
    nodes = sc.cfg.all_nodes()
    for j in range(rng.choice([0, 1, 1, 2])):
        k = sc.tags["ncli"]; sc.tags["ncli"] = k + 1
        pos = rng.randint(0, len(S))
        line = ("%s %s\r\n" % (rng.choice(["on", "off", "status", "cycle"]), rng.choice(nodes))).encode()
        S[pos:pos] = [("connect", k), ("wait", k), ("send", k, line), ("raw", ["EOF c%d" % k]), ("sleep", rng.choice([1000, 2500000, 6000000]))]
    if rng.random() < 0.3:
        S.insert(rng.randint(0, len(S)), ("raw", ["SIG TERM"])); sc.tags["sigterm"] = True
    pmcheck.renumber(sc)
    if rng.random() < 0.35 and not sc.tags.get("sigterm"):
        # steady state: one more client repeats the same request 24 times
        k = sc.tags["ncli"]; sc.tags["ncli"] = k + 1
        nodes = sc.cfg.all_nodes()
        n0 = rng.choice(nodes)
        line = rng.choice(["status", "status %s,%s" % (n0, n0), "on %s" % n0, "status %s" % n0, "temp", "device", "nodes", "cycle %s,%s" % (n0, rng.choice(nodes))])
        S += [("connect",), ("wait", k)]
        for _ in range(24):
            S += [("send", k, (line + "\r\n").encode()), ("wait", k)]
        sc.tags["repeat"] = (k, line, 24)
        sc.env["PMSIM_MEM"] = "1"
    if rng.random() < 0.5:
        sc.env["PMSIM_STUBBORN"] = "1"      # coprocess helpers that ignore SIGTERM and exit only on EOF of their socket
    if any(d.transport == "tcp" for d in sc.cfg.devs) and rng.random() < 0.5:
        # the first connect attempts of the tcp devices fail in every way connect() can fail (at once with an errno, later through
        # poll with POLLHUP / SO_ERROR, or stay pending): no descriptor may be left behind by a failed attempt
        S.insert(0, ("raw", ["PLAN " + rng.choice(["syncfail", "syncfail", "refuse-hup", "refuse-soerr", "pending", "ok-now"]) for _ in range(rng.randint(1, 7))]))
        sc.tags["plans"] = True
    return sc


def replay(ctx, V, path):
    print(json.dumps(json.load(open(path)), indent=1)[:6000]); return 0
