"""C03 - status queries report exactly what the devices answered, now (DESIGN §5 C03)"""
import json, vlib, pmcheck
def run(ctx, V):
    import C06
    pmcheck.standard_run(ctx, V, ["alive", "c03", "protocol", "wedge"], extract=["Extract/ExClient.vo", "Extract/ExEnqueue.vo"], n_quick=500, n_thorough=8000)
    C06.correspond(ctx, V, n=300 if ctx.tier == "quick" else 4000)
def replay(ctx, V, path):
    import C06
    return C06.replay(ctx, V, path)
