"""C03 - status queries report exactly what the devices answered, now (DESIGN §5 C03)"""
import json, vlib, pmcheck
def foreign_outlet_stage(ctx, V, exe, n):
    """`a node is shown on/off only if its device reported that for ITS plug`: the device starts every answer with a report about an
    outlet nobody asked about - an unconfigured name, or a hard-wired plug that carries no node - whose state is the opposite of what the
    targeted plugs report.  That report must be ignored (the node whose own line is then skipped by a one-line script is `unknown`)."""
    import random, pmgen
    scs = []
    for i in range(n):
        rng = random.Random(ctx.seed * 32452843 + i)
        cfg = pmgen.gen_variant_config(rng, ndev=rng.choice([1, 2]))
        S = [("connect",), ("wait", 0)]
        reqs = []
        sc = pmcheck.Scenario(cfg, S, dict(style="c03-foreign", ncli=1))
        for d in cfg.devs:
            S.append(("devstate", d.name, "OFF" if i % 2 == 0 else "ON"))
            unused = [p for p, nn in cfg.truth[d.name].items() if nn is None]
            names = (unused[:1] if unused and rng.random() < 0.6 else []) + [rng.choice(["zz9", "outlet99", "0"])]
            S.append(("devprefix", d.name, ["%s %s\n" % (nm, "ON" if i % 2 == 0 else "OFF") for nm in names]))
        nodes = cfg.all_nodes()
        for _ in range(rng.randint(2, 4)):
            tg = sorted(rng.sample(nodes, rng.randint(1, min(3, len(nodes))))) if rng.random() < 0.7 else None
            line = "status" + (" " + ",".join(tg) if tg else "")
            S.append(("send", 0, (line + "\r\n").encode())); S.append(("wait", 0))
            reqs.append(dict(client=0, word="status", line=line, targets=tg if tg else list(nodes)))
        sc.requests = reqs
        scs.append(sc)
    pmcheck.run_batch(ctx, V, exe, scs, ["alive", "c03", "protocol", "wedge"], "c03f")
    V.count("foreign-outlet-histories", len(scs))


def run(ctx, V):
    import C06, pmsim
    _run(ctx, V)
    foreign_outlet_stage(ctx, V, pmsim.build(ctx), 30 if ctx.tier == "quick" else 600)


def _run(ctx, V):
    import C06
    pmcheck.standard_run(ctx, V, ["alive", "c03", "protocol", "wedge"], extract=["Extract/ExClient.vo", "Extract/ExEnqueue.vo"], n_quick=500, n_thorough=8000)
    C06.correspond(ctx, V, n=300 if ctx.tier == "quick" else 4000)
def replay(ctx, V, path):
    import C06
    return C06.replay(ctx, V, path)
