"""C03 - status queries report exactly what the devices answered, now (DESIGN §5 C03)"""
import json, re, vlib, pmcheck
def foreign_outlet_stage(ctx, V, exe, n):
    """`a node is shown on/off only if its device reported that for ITS plug`: the device starts every answer with a report about an
    outlet nobody asked about - an unconfigured name, or a hard-wired plug that carries no node - whose state is the opposite of what the
    targeted plugs report.  That report must be ignored (the node whose own line is then skipped by a one-line script is `unknown`)."""
    import random, pmgen
    scs = []
    for i in range(n):
        rng = random.Random(ctx.seed * 32452843 + i)
        cfg = pmgen.gen_variant_config(rng, ndev=rng.choice([1, 2]))
        S = [("connect",), ("wait", 0)]
        reqs = []
        sc = pmcheck.Scenario(cfg, S, dict(style="c03-foreign", ncli=1))
        for d in cfg.devs:
            S.append(("devstate", d.name, "OFF" if i % 2 == 0 else "ON"))
            unused = [p for p, nn in cfg.truth[d.name].items() if nn is None]
            names = (unused[:1] if unused and rng.random() < 0.6 else []) + [rng.choice(["zz9", "outlet99", "0"])]
            S.append(("devprefix", d.name, ["%s %s\n" % (nm, "ON" if i % 2 == 0 else "OFF") for nm in names]))
        nodes = cfg.all_nodes()
        for _ in range(rng.randint(2, 4)):
            tg = sorted(rng.sample(nodes, rng.randint(1, min(3, len(nodes))))) if rng.random() < 0.7 else None
            line = "status" + (" " + ",".join(tg) if tg else "")
            S.append(("send", 0, (line + "\r\n").encode())); S.append(("wait", 0))
            reqs.append(dict(client=0, word="status", line=line, targets=tg if tg else list(nodes)))
        sc.requests = reqs
        scs.append(sc)
    pmcheck.run_batch(ctx, V, exe, scs, ["alive", "c03", "protocol", "wedge"], "c03f")
    V.count("foreign-outlet-histories", len(scs))


def odd_answer_stage(ctx, V, exe, n):
    """(a) answers that are NOT a table entry but contain its letters in another case or inside a longer word (`on`, `Offline`, `nonsense`):
    `a missing or unrecognised answer is shown unknown`;
    (b) a device that answers a status request LATER than its time-out: the query fails (211, unknown), and the late answer must not be taken
    for the answer to the NEXT query (the outlets changed state in between): `state is never cached between queries`."""
    import random, pmgen
    scs = []
    for i in range(n):
        rng = random.Random(ctx.seed * 67867967 + i)
        cfg = pmgen.Config()
        d0 = pmgen.Dev("d0", ["login", "status"] + (["status_all"] if rng.random() < 0.4 else []), hardwired=["p1", "p2"], transport=rng.choice(["pipe", "tcp"]), timeout=2.0)
        cfg.devs.append(d0); cfg.node_lines.append(("n0,n1", "d0", "p1,p2")); cfg.truth = {"d0": {"p1": "n0", "p2": "n1"}}
        S = [("connect",), ("wait", 0)]
        sc = pmcheck.Scenario(cfg, S, dict(style="c03-odd" if i % 2 == 0 else "c03-late", ncli=1))
        def ask(line, tg):
            S.append(("send", 0, (line + "\r\n").encode())); S.append(("wait", 0))
            sc.requests.append(dict(client=0, word="status", line=line, targets=tg))
        if i % 6 == 5:
            # (c) F43 (known finding): a device that answers ONE query with more than the script consumes - here: everything twice; the
            # surplus stays in dev->from and is taken for the answer to the NEXT query, whatever the outlets do meanwhile
            sc.tags["style"] = "c03-surplus"
            first = rng.choice(["ON", "OFF"]); sc.tags["first"] = first
            S.append(("devstate", "d0", first)); S.append(("devmode", "d0", "surplus"))
            ask("status n0", ["n0"])
            S.append(("devstate", "d0", "OFF" if first == "ON" else "ON"))
            ask("status n0", ["n0"])
        elif i % 6 == 3:
            # (d) two NODE-LESS queries; for the second one the device leaves out n0's line (or says nothing at all) after the outlets
            # changed state: n0 is unknown - whatever an earlier query of any kind found out about it is gone with that query's list
            sc.tags["style"] = "c03-stale"
            first = rng.choice(["ON", "OFF"]); sc.tags["first"] = first
            q = rng.choice(["status", "status", "beacon"]) if False else "status"
            S.append(("devstate", "d0", first))
            ask(q, ["n0", "n1"])
            S.append(("devstate", "d0", "OFF" if first == "ON" else "ON"))
            S.append(("verdict", "d0", "p1", None) if rng.random() < 0.6 else ("devmode", "d0", "silent"))
            ask(q, ["n0", "n1"])
        elif i % 2 == 0:
            for _ in range(3):
                S.append(("verdict", "d0", rng.choice(["p1", "p2"]), rng.choice(["on", "off", "Offline", "nonsense", "oFF", "conn", "On", "0n", "offON"[:3]])))
                ask(*rng.choice([("status", ["n0", "n1"]), ("status n0", ["n0"]), ("status n[0-1]", ["n0", "n1"])]))
        else:
            first = "ON" if i % 4 == 1 else "OFF"
            S.append(("devstate", "d0", first)); S.append(("devmode", "d0", "late"))
            ask(*rng.choice([("status n0", ["n0"]), ("status", ["n0", "n1"])]))
            S.append(("devstate", "d0", "OFF" if first == "ON" else "ON"))
            ask(*rng.choice([("status n0", ["n0"]), ("status", ["n0", "n1"]), ("status n1", ["n1"])]))
            ask("status", ["n0", "n1"])
        scs.append(sc)
    def mon_c03_sited(sess, sc):
        # the surplus-answer histories have their own site, so that the known finding F43 does not hide any other stale state
        bad = [(c, "surplus-answer" if (sc.tags.get("style") == "c03-surplus" and c == "status-invented") else s_, d) for c, s_, d in pmcheck.mon_c03(sess, sc)]
        if sc.tags.get("style") == "c03-stale" and sess.alive_after_script:
            reps = [r for r in (pmcheck.split_replies(sess.client_out.get(0, b"")) or []) if isinstance(r[0], int)]
            word = sc.tags["first"].lower()
            if len(reps) >= 2 and any(re.match(rb"302 %s: +n(0|\[0-1\])" % word.encode(), ln) for ln in reps[1][1]):
                bad.append(("status-invented", "stale-state", "the second node-less `status` shows n0 %s: its device said nothing about n0 this time (and the outlets had changed); that is what the FIRST query found out" % word))
        if sc.tags.get("style") == "c03-surplus" and sess.alive_after_script:
            # mon_c03 asks whether the device EVER said so; here the question is whether it said so in answer to THIS query: by the
            # second query every outlet reports the opposite of `first`
            reps = [r for r in (pmcheck.split_replies(sess.client_out.get(0, b"")) or []) if isinstance(r[0], int)]
            word = sc.tags["first"].lower()
            if len(reps) >= 2 and any(re.match(rb"302 %s: +n0" % word.encode(), ln) for ln in reps[1][1]):
                bad.append(("status-invented", "surplus-answer", "the second `status n0` shows n0 %s: that is the surplus of the device's answer to the FIRST query (it said everything twice); by the second query the outlet reports the opposite" % word))
        return bad
    pmcheck.MONITORS["c03sited"] = mon_c03_sited
    pmcheck.run_batch(ctx, V, exe, scs, ["alive", "c03sited", "protocol", "wedge"], "c03o")
    V.count("odd-answer-histories", len(scs))


def run(ctx, V):
    import C06, pmsim
    _run(ctx, V)
    exe = pmsim.build(ctx)
    foreign_outlet_stage(ctx, V, exe, 30 if ctx.tier == "quick" else 600)
    odd_answer_stage(ctx, V, exe, 24 if ctx.tier == "quick" else 600)


def _run(ctx, V):
    import C06
    pmcheck.standard_run(ctx, V, ["alive", "c03", "protocol", "wedge"], extract=["Extract/ExClient.vo", "Extract/ExEnqueue.vo"], n_quick=500, n_thorough=8000)
    C06.correspond(ctx, V, n=300 if ctx.tier == "quick" else 4000)
def replay(ctx, V, path):
    import C06
    return C06.replay(ctx, V, path)
