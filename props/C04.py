"""C04 - every request gets exactly one final answer, in bounded time (DESIGN §5 C04)"""
import json, vlib, pmcheck
def run(ctx, V):
    pmcheck.standard_run(ctx, V, ["alive", "protocol", "wedge"], styles=("mixed", "faults", "faults"), n_quick=700)
def replay(ctx, V, path):
    print(json.dumps(json.load(open(path)), indent=1)[:6000]); return 0
