"""C04 - every request gets exactly one final answer, in bounded time (DESIGN §5 C04).
   Engine R-SIM: recorded runs of the real powermand under the virtual OS (harness/pmsim.c) are replayed pass by pass through
   the extracted whole-daemon model Model/Daemon.v; the whole-daemon monitors are evaluated on the implementation's behaviour."""
import json, os
from concurrent.futures import ThreadPoolExecutor
import vlib, pmcheck, pmsim, pmgen, pmreplay


def version_of(ctx):
    import re
    m = re.search(r'#define PACKAGE_VERSION "([^"]*)"', open(os.path.join(ctx.repo, "config/config.h")).read())
    return m.group(1) if m else "verif"


def rsim(ctx, V, exe, n, styles=("healthy", "mixed", "faults"), prefix="rsim", monitors=("alive", "protocol", "wedge"), gen=None):
    """run n scenarios on pmsim, apply the monitors, replay every run through the model"""
    import C01
    consts = pmgen.load_genconsts(ctx.coq)
    enq = C01.build_enq(ctx)
    model = pmreplay.build_model(ctx)
    version = version_of(ctx)
    gen = gen or pmcheck.gen_scenario
    scs = [gen(ctx.rng, style=styles[i % len(styles)]) for i in range(n)]
    sessions = pmcheck.run_batch(ctx, V, exe, scs, list(monitors), prefix)

    def one(x):
        sc, sess = x
        if isinstance(sess, Exception):
            return None
        if sc.tags.get("no_replay"):
            return (0, "skipped-telnet")
        try:
            return pmreplay.replay_session(model, enq, sess, consts, version)
        except vlib.TieBroken as ex:
            return (0, (0, str(ex), None, None))
        except Exception as ex:
            return (0, (0, "replay failed: %r" % (ex,), None, None))
    with ThreadPoolExecutor(16) as ex:
        res = list(ex.map(one, zip(scs, sessions)))
    npass = 0
    for sc, sess, r in zip(scs, sessions, res):
        if r is None:
            continue
        k, diff = r
        if diff == "skipped-telnet":
            V.count("rsim-skipped-telnet"); continue
        V.count("rsim-replayed")
        npass += k
        V.count("rsim-passes", k)
        if diff is not None:
            w = sc.describe(); w["events"] = sess.sim.events
            V.tie_broken("correspondence", "R-SIM", diff[1], case=w)
    V.rule = (V.rule + " || " if V.rule else "") + ("R-SIM: every run is replayed through the extracted Model/Daemon.v (the OS answers of each pass - revents, bytes read/written, "
              "connect results, clock - are the model's input) and compared after EVERY pass: bytes written per client and per device, accepts, client closes, "
              "connect attempts, the time-out handed to poll, open descriptors, live children, every device's (connect state, logged_in, fd, retry_count, counters, queue length)")
    return sessions


def gen_overflow(rng, style="out"):
    """directed histories around the 1 MiB client buffers (client.c: cbuf_create(MIN_CLIENT_BUF, MAX_CLIENT_BUF), policy
    CBUF_WRAP_MANY): `out` = a client that does not read is owed more than 1 MiB (the oldest unsent bytes are overwritten);
    `in` = a client sends more than 1 MiB without a newline (the oldest unparsed bytes are overwritten), then goes on normally"""
    cfg = pmgen.gen_variant_config(rng, ndev=1)
    for d in cfg.devs:
        d.transport = "pipe"; d.timeout = 2.0
    sc = pmcheck.Scenario(cfg, [], dict(style="overflow-" + style, ncli=2, max_rounds=4000))      # the daemon reads ~1000 bytes per pass into a full buffer
    S = sc.script
    S.append(("connect",)); S.append(("wait", 0)); S.append(("connect",)); S.append(("wait", 1))
    if style == "out":
        S.append(("raw", ["STALL c0 1"]))
        n = rng.choice([1500, 1560, 1650])          # a `help` reply is ~720 bytes: 1 MiB is passed after ~1460 of them
        for _ in range(4):
            S.append(("send", 0, b"help\r\n" * (n // 4))); S.append(("sleep", 1000))
        S.append(("send", 1, b"nodes\r\n")); S.append(("wait", 1))
        S.append(("raw", ["STALL c0 0"])); S.append(("sleep", 200000))
        S.append(("send", 0, b"nodes\r\n")); S.append(("sleep", 200000))
    else:
        tot = rng.choice([1048576 + 5000, 1200000, 1048576 - 3])
        chunk = 262144
        sent = 0
        while sent < tot:
            m = min(chunk, tot - sent)
            S.append(("send", 0, bytes([rng.choice(b"abcxyz019 ")]) * m)); S.append(("sleep", 1000)); sent += m
        S.append(("send", 1, b"nodes\r\n")); S.append(("wait", 1))
        S.append(("send", 0, b"\nhelp\r\n")); S.append(("sleep", 300000))
    sc.requests = []
    return sc


def halfclose_stage(ctx, V, exe, n):
    """`exactly one terminal reply - never none`, for a client that sends its request and half-closes at once (`echo status | nc`): the
    command is in progress when the daemon sees the end-of-file; the terminal reply must be written before the daemon closes the client"""
    import random, C06
    scs = []
    for i in range(n):
        rng = random.Random(ctx.seed * 15485863 + i)
        cfg = pmgen.gen_variant_config(rng, ndev=rng.choice([1, 2]))
        for d in cfg.devs: d.timeout = 3.0
        nodes = cfg.all_nodes()
        req = rng.choice([b"status", b"status " + rng.choice(nodes).encode(), b"on " + rng.choice(nodes).encode(), b"off " + rng.choice(nodes).encode()]) + b"\r\n"
        S = [("connect",), ("wait", 0), ("send", 0, req), ("raw", ["EOF c0"]), ("sleep", 200000), ("sleep", 4000000)]
        scs.append(pmcheck.Scenario(cfg, S, dict(style="c04-halfclose", ncli=1)))
    pmcheck.MONITORS["c06halfclose"] = C06.mon_c06_halfclose
    pmcheck.run_batch(ctx, V, exe, scs, ["alive", "wedge", "c06halfclose"], "c04hc")
    V.count("half-close-histories", len(scs))


def bounded_time_stage(ctx, V):
    """the bounded-time clause on the real device layer (harness/dev_h.c = the unmodified device.c with stub transports, the
    engine of R-DEV): a request queued on a device must be completed (complete_fun called: EV DONE) within BOUND device
    time-outs of virtual time, whatever the peer does.  Directed histories: a silent peer, a peer that refuses connections,
    a peer that sends garbage, and a FLAPPING peer (accepts at once, never answers the login, hangs up before the login's
    deadline, again and again).  Theorems: C04_deadline_* (the first three are `steady`); the last one is F41."""
    import C01, C08
    BOUND = 20
    consts = pmgen.load_genconsts(ctx.coq)
    devh = C08.build_dev(ctx)
    hx = lambda x: x.encode("latin-1").hex()
    on = consts[pmgen.KINDS[pmgen.CLIENT_COMS["on"]]]

    def case(timeout, body):
        cfg = pmgen.Config()
        d = pmgen.Dev("d0", ["login", "on"], hardwired=["p1"], timeout=timeout, ping=0)
        d.bodies = {"login": 'send "login\\n"\n\t\texpect "ok"', "on": 'send "on %s\\n"\n\t\texpect "done"'}
        cfg.devs.append(d); cfg.node_lines.append(("n1", "d0", "p1"))
        return cfg, body

    T = 100.0
    us = lambda sec: int(sec * 1000000)
    start = ["NOW 1000000", "INIT", "PASS", "NEWARGS " + hx("n1"), "ENQ %d 7 0 0 %s" % (on, hx("n1")), "NOW 1100000", "PASS"]
    horizon = us(1 + (BOUND + 2) * T)
    step = us(T / 2 + 1)
    ticks = list(range(1100000 + step, horizon, step))
    hist = {
        "silent": ["PLAN 0 " + " ".join(["now"] * 60)] + start + sum([["NOW %d" % t, "PASS"] for t in ticks], []),
        "refusing": ["PLAN 0 " + " ".join(["fail"] * 200)] + start + sum([["NOW %d" % t, "PASS"] for t in ticks], []),
        "garbage": ["PLAN 0 " + " ".join(["now"] * 60)] + start + sum([["NOW %d" % t, "FEED 0 " + hx("zzz\n"), "PASS"] for t in ticks], []),
        # hangs up every 61 s (> the longest back-off step, < the login's 100 s): a fresh login each time
        "flapping": ["PLAN 0 " + " ".join(["now"] * 60)] + start + sum([["NOW %d" % (1000000 + 61000000 * k), "PEERCLOSE 0", "PASS"] for k in range(1, 40)], []),
    }
    # F41 refined: the bound needs time-out + latency < 60 s; at exactly 60 s a peer that hangs up in the pass the login deadline
    # wakes the daemon for starves the queue as well
    hist60 = ["PLAN 0 " + " ".join(["now"] * 60)] + start + sum([["NOW %d" % (1000000 + 60000000 * k), "PEERCLOSE 0", "PASS"] for k in range(1, 40)], [])
    for name, ops in list(hist.items()) + [("flapping60", hist60)]:
        cfg, ops = case(60.0 if name == "flapping60" else T, ops)
        ops = [ops[1]] + [ops[0]] + ops[2:] if ops[0].startswith("PLAN") else ops        # NOW first, then the plan
        rc, o, e = C08.run_impl(devh, ctx.scratch, 900 + len(name), cfg, ops)
        V.case(("bounded-time", name), nontrivial=True); V.count("bounded-time:" + name)
        if rc != 0:
            V.violation("daemon-dies", "device-layer rc=%s" % rc, dict(history=name, ops=ops, config=cfg.text()), e[-400:]); continue
        done = [l for l in o.splitlines() if l.startswith("EV DONE 7 ")]
        last_now = max(int(x.split()[1]) for x in ops if x.startswith("NOW "))
        if not done and last_now >= 1100000 + us(BOUND * cfg.devs[0].timeout):
            V.violation("bounded-time", "flapping-login" if name.startswith("flapping") else name, dict(history=name, ops=ops, config=cfg.text()),
                        "the action queued for client 7 at 1.1 s on a device with time-out %g s has not been completed after %g s of virtual time "
                        "(%d time-outs); last device state: %s" % (cfg.devs[0].timeout, last_now / 1e6, int((last_now - 1100000) / us(cfg.devs[0].timeout)), [l for l in o.splitlines() if l.startswith("DEV ")][-1][:300]))
    V.rule = (V.rule + " || " if V.rule else "") + ("bounded time on the real device.c (dev_h): a queued request must be completed within %d device time-outs for a silent, "
              "refusing, garbage-sending and flapping peer" % BOUND)


def deadline_stage(ctx, V, exe, n):
    """the bounded-time clause on the WHOLE daemon under the virtual OS, for the steady case C04_deadline_reached /
    C04_bounded_time_steady speak about: one tcp device that refuses every connect (no connection ever comes up: the run is
    steady), one request for a node of it at a random moment between the back-off wake-ups.  The virtual clock advances by
    exactly what the daemon asks poll for, so the terminal reply must arrive at (request time + device time-out) up to
    rounding - it does if and only if the daemon registers the head action's deadline as a poll time-out (C04_no_timerless_wait)"""
    import random
    from concurrent.futures import ThreadPoolExecutor
    SLACK = 60000
    jobs = []
    for i in range(n):
        rng = random.Random(ctx.seed * 7919 + i)
        T = rng.choice([2.5, 5.0, 6.0, 9.0, 11.0, 20.0])
        cfg = pmgen.Config()
        d = pmgen.Dev("d0", ["login", "on", "off"], hardwired=["p1"], timeout=T, ping=0)
        d.transport = "tcp"
        d.bodies = {"login": 'send "login\\n"\n\t\texpect "ok"', "on": 'send "on %s\\n"\n\t\texpect "done"', "off": 'send "off %s\\n"\n\t\texpect "done"'}
        cfg.devs.append(d); cfg.node_lines.append(("n1", "d0", "p1")); cfg.truth = {"d0": {"p1": "n1"}}
        kind = rng.choice(["refuse-hup", "refuse-soerr", "syncfail"])
        wait = rng.choice([200000, 1200000, 3500000, 5100000, 8000000, 16500000, rng.randrange(100000, 30000000)])
        S = [("raw", ["PLAN " + kind] * 120), ("connect",), ("wait", 0), ("sleep", wait), ("send", 0, rng.choice([b"on n1\r\n", b"off n1\r\n"])), ("wait", 0)]
        if i % 3 == 2:
            # ... while a SECOND device, configured after the first, sits in a `delay` longer than the first one's time-out for another
            # client: the poll time-out is the minimum over all pending timers, whichever device registers last
            D = T + rng.choice([1.5, 4.0, 9.0])
            d1 = pmgen.Dev("d1", ["login", "on", "off"], hardwired=["p1"], timeout=D + 5.0, ping=0)
            d1.transport = "pipe"
            d1.bodies = {"on": 'send "ON %%s\\n"\n\t\tdelay %g\n\t\texpect "done\\n"' % D, "off": 'send "OFF %%s\\n"\n\t\tdelay %g\n\t\texpect "done\\n"' % D}
            cfg.devs.append(d1); cfg.node_lines.append(("n2", "d1", "p1")); cfg.truth["d1"] = {"p1": "n2"}
            S = [("raw", ["PLAN " + kind] * 120), ("connect",), ("connect",), ("wait", 0), ("wait", 1), ("sleep", wait),
                 ("send", 1, b"on n2\r\n"), ("send", 0, rng.choice([b"on n1\r\n", b"off n1\r\n"])), ("wait", 0), ("wait", 1)]
        jobs.append((i, T, pmcheck.Scenario(cfg, S, dict(style="c04-deadline", kind=kind, wait=wait, max_rounds=400, ncli=2 if i % 3 == 2 else 1), env={"PMSIM_PLAN": kind})))

    def one(j):
        i, T, sc = j
        try:
            return pmcheck.run_scenario(exe, sc, ctx.scratch, "c04dl%d" % i, ctx.seed + i, max_rounds=400)
        except Exception as ex:
            return ex
    with ThreadPoolExecutor(16) as ex:
        res = list(ex.map(one, jobs))
    for (i, T, sc), sess in zip(jobs, res):
        V.case(("deadline", sc.cfg.text(), repr(sc.script)), nontrivial=True); V.count("deadline-cases")
        if isinstance(sess, Exception):
            V.tie_broken("tie", "pmsim-run", repr(sess), case=sc.describe()); continue
        w = dict(sc.describe(), events=sess.sim.events, client_out=sess.client_out.get(0, b"").decode("latin-1")[-600:])
        for bad in pmcheck.mon_alive(sess, sc) + pmcheck.mon_protocol(sess, sc):
            V.violation(bad[0], bad[1], w, bad[2])
        # when was the request handed to the daemon, when was its terminal line complete
        t_req = None
        for r, evs in zip(sess.rounds, sess.sim.events):
            if any(e.startswith("IN c0 ") for e in evs):
                t_req = r.now + sum(int(e.split()[1]) for e in evs if e.startswith("ADV "))
        acc, t_rep, nterm = b"", None, 0
        for t, data in sess.client_times.get(0, []):
            acc += data
            k = len(pmcheck.TERMINAL.findall(acc))
            if k > nterm and t_req is not None and t >= t_req:
                t_rep = t; break
            nterm = k
        if t_req is None or t_rep is None:
            if sess.alive_after_script and not sess.overrun:
                V.violation("bounded-time", "no-reply", w, "the request for a node of a device that refuses every connect got no terminal reply (request at %s us)" % t_req)
            continue
        late = t_rep - t_req - int(T * 1000000)
        V.count("deadline-on-time" if late <= SLACK else "deadline-late")
        if late > SLACK:
            V.violation("bounded-time", "deadline-slept-through", dict(w, t_request=t_req, t_reply=t_rep, timeout_us=int(T * 1000000)),
                        "device time-out %g s, connects refused (%s): the request of %d us was answered at %d us, %d us after its deadline "
                        "(the daemon asked poll for a wake-up later than the head action's deadline)" % (T, sc.tags["kind"], t_req, t_rep, late))
    V.rule = (V.rule + " || " if V.rule else "") + ("deadline on pmsim: a request for a node of a tcp device that refuses every connect is answered at request time + device time-out "
              "(+ %d us), for time-outs 2.5-20 s and request times between the back-off wake-ups" % SLACK)


def xpoll_correspond(ctx, V):
    """R-XPOLL: the real xpoll() (poll and gettimeofday wrapped: every poll call is interrupted as long as the case supplies
    clock readings) against Model/Xpoll.v; monitor: with a finite time-out no poll call may get a negative (= infinite) one"""
    r = ctx.repo
    exe = ctx.cc([vlib.VERIF + "/harness/xpoll_h.c"] + [r + "/src/libcommon/" + f for f in ("xpoll.c", "xmalloc.c", "error.c", "hprintf.c", "xread.c")],
                 "xpoll_h", extra=["-Wl,--wrap=poll", "-Wl,--wrap=gettimeofday"])
    model = ctx.ocaml_driver("xpoll_model", "xpollmodel", "xpoll_drv.ml")
    rng = ctx.rng
    cases = ["2000000 1000000000 1000700000 1001500000", "2000000 1000000000 1002000100", "- 5 6", "1500 0 1200", "0 7 7", "999 0 998 999 1000 1001"]
    for _ in range(400 if ctx.tier == "quick" else 20000):
        if rng.random() < 0.1:
            cases.append("- " + " ".join(str(rng.randrange(10**9)) for _ in range(rng.randint(0, 3)))); continue
        tv = rng.choice([0, 1, 999, 1000, 1001, 50000, 999999, 1000000, 1000001, 2000000, 5000000, rng.randrange(1, 10**8)])
        start = rng.choice([0, 10**9, rng.randrange(10**12)])
        t, rd = start, []
        for _ in range(rng.randint(0, 4)):
            t += rng.choice([0, 1, 999, 1000, tv // 2, tv - 1, tv, tv + 1, tv + 1000, rng.randrange(0, 2 * tv + 2)])
            rd.append(t)
        cases.append("%d %d %s" % (tv, start, " ".join(map(str, rd))))
    inp = ("\n".join(cases) + "\n").encode()
    rc1, o1, e1 = vlib.sh(["timeout", "-s", "KILL", "60", exe], shell=False, inp=inp, timeout=70, env={"ASAN_OPTIONS": "detect_leaks=0"})
    rc2, o2, e2 = vlib.sh(["timeout", "-s", "KILL", "60", model], shell=False, inp=inp, timeout=70)
    if rc1 != 0 or rc2 != 0:
        V.tie_broken("correspondence", "R-XPOLL", "harness rc=%s model rc=%s %s %s" % (rc1, rc2, e1[-300:], e2[-300:])); return
    for c, a, b in zip(cases, o1.splitlines(), o2.splitlines()):
        V.case(("xpoll", c), nontrivial=len(c.split()) > 2); V.count("xpoll-cases")
        tmos = [int(x) for x in a.split()[1:]]
        if not c.startswith("-") and any(t < 0 for t in tmos):
            V.violation("no-timerless-wait", "xpoll-negative-timeout", dict(case=c, poll_timeouts=tmos),
                        "xpoll was asked for a finite wait but handed poll a negative (infinite) time-out after EINTR: %s -> %s" % (c, tmos))
        elif a != b:
            V.tie_broken("correspondence", "R-XPOLL", "case %s: implementation %s, model %s" % (c, a, b), case=c)
    V.rule = (V.rule + " || " if V.rule else "") + "R-XPOLL: xpoll() with interrupted poll calls (clock readings before/at/after the deadline) vs Model/Xpoll.v; monitor: no negative time-out for a finite wait"


def run(ctx, V):
    proofs_ok = vlib.proof_gate(ctx, V, extract=["Extract/ExDaemon.vo", "Extract/ExEnqueue.vo", "Extract/ExXpoll.vo", "Extract/ExDevice.vo"])
    xpoll_correspond(ctx, V)
    bounded_time_stage(ctx, V)
    exe = pmsim.build(ctx)
    rsim(ctx, V, exe, int(os.environ.get('C04_N', 0)) or 300 if ctx.tier == "quick" else 6000, styles=("mixed", "faults", "healthy"), prefix="c04")
    deadline_stage(ctx, V, exe, 40 if ctx.tier == "quick" else 1200)
    halfclose_stage(ctx, V, exe, 24 if ctx.tier == "quick" else 600)
    if ctx.tier == "quick":
        # (the replayed 1 MiB histories are thorough-tier only - the model side takes minutes; on the implementation alone they take seconds:
        #  the other session is served, the non-reader later gets the newest megabyte incl. the whole reply to its last request)
        ov = [gen_overflow(ctx.rng, "out")]
        pmcheck.run_batch(ctx, V, exe, ov, ["alive", "wedge", "nonreader"], "c04ov")
        V.count("non-reader-over-1MiB", len(ov))
    # the 1 MiB client buffers (overwrite of the oldest bytes): replayed through the model like every other run
    if ctx.tier != "quick":       # ~3 minutes of model time per history (a million-element list per pass): thorough tier only
        os.environ.setdefault("PMREPLAY_TIMEOUT", "2400"); pmreplay.MODEL_TIMEOUT = int(os.environ["PMREPLAY_TIMEOUT"])
        rsim(ctx, V, exe, 4, styles=("out", "in"), prefix="c04over", monitors=("alive", "wedge", "nonreader"), gen=gen_overflow)


def replay(ctx, V, path):
    print(json.dumps(json.load(open(path)), indent=1)[:6000]); return 0
