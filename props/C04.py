"""C04 - every request gets exactly one final answer, in bounded time (DESIGN §5 C04).
   Engine R-SIM: recorded runs of the real powermand under the virtual OS (harness/pmsim.c) are replayed pass by pass through
   the extracted whole-daemon model Model/Daemon.v; the whole-daemon monitors are evaluated on the implementation's behaviour."""
import json, os
from concurrent.futures import ThreadPoolExecutor
import vlib, pmcheck, pmsim, pmgen, pmreplay


def version_of(ctx):
    import re
    m = re.search(r'#define PACKAGE_VERSION "([^"]*)"', open(os.path.join(ctx.repo, "config/config.h")).read())
    return m.group(1) if m else "verif"


def rsim(ctx, V, exe, n, styles=("healthy", "mixed", "faults"), prefix="rsim", monitors=("alive", "protocol", "wedge"), gen=None):
    """run n scenarios on pmsim, apply the monitors, replay every run through the model"""
    import C01
    consts = pmgen.load_genconsts(ctx.coq)
    enq = C01.build_enq(ctx)
    model = pmreplay.build_model(ctx)
    version = version_of(ctx)
    gen = gen or pmcheck.gen_scenario
    scs = [gen(ctx.rng, style=styles[i % len(styles)]) for i in range(n)]
    sessions = pmcheck.run_batch(ctx, V, exe, scs, list(monitors), prefix)

    def one(x):
        sc, sess = x
        if isinstance(sess, Exception):
            return None
        if sc.tags.get("no_replay"):
            return (0, "skipped-telnet")
        try:
            return pmreplay.replay_session(model, enq, sess, consts, version)
        except vlib.TieBroken as ex:
            return (0, (0, str(ex), None, None))
        except Exception as ex:
            return (0, (0, "replay failed: %r" % (ex,), None, None))
    with ThreadPoolExecutor(16) as ex:
        res = list(ex.map(one, zip(scs, sessions)))
    npass = 0
    for sc, sess, r in zip(scs, sessions, res):
        if r is None:
            continue
        k, diff = r
        if diff == "skipped-telnet":
            V.count("rsim-skipped-telnet"); continue
        V.count("rsim-replayed")
        npass += k
        V.count("rsim-passes", k)
        if diff is not None:
            w = sc.describe(); w["events"] = sess.sim.events
            V.tie_broken("correspondence", "R-SIM", diff[1], case=w)
    V.rule = (V.rule + " || " if V.rule else "") + ("R-SIM: every run is replayed through the extracted Model/Daemon.v (the OS answers of each pass - revents, bytes read/written, "
              "connect results, clock - are the model's input) and compared after EVERY pass: bytes written per client and per device, accepts, client closes, "
              "connect attempts, the time-out handed to poll, open descriptors, live children, every device's (connect state, logged_in, fd, retry_count, counters, queue length)")
    return sessions


def xpoll_correspond(ctx, V):
    """R-XPOLL: the real xpoll() (poll and gettimeofday wrapped: every poll call is interrupted as long as the case supplies
    clock readings) against Model/Xpoll.v; monitor: with a finite time-out no poll call may get a negative (= infinite) one"""
    r = ctx.repo
    exe = ctx.cc([vlib.VERIF + "/harness/xpoll_h.c"] + [r + "/src/libcommon/" + f for f in ("xpoll.c", "xmalloc.c", "error.c", "hprintf.c", "xread.c")],
                 "xpoll_h", extra=["-Wl,--wrap=poll", "-Wl,--wrap=gettimeofday"])
    model = ctx.ocaml_driver("xpoll_model", "xpollmodel", "xpoll_drv.ml")
    rng = ctx.rng
    cases = ["2000000 1000000000 1000700000 1001500000", "2000000 1000000000 1002000100", "- 5 6", "1500 0 1200", "0 7 7", "999 0 998 999 1000 1001"]
    for _ in range(400 if ctx.tier == "quick" else 20000):
        if rng.random() < 0.1:
            cases.append("- " + " ".join(str(rng.randrange(10**9)) for _ in range(rng.randint(0, 3)))); continue
        tv = rng.choice([0, 1, 999, 1000, 1001, 50000, 999999, 1000000, 1000001, 2000000, 5000000, rng.randrange(1, 10**8)])
        start = rng.choice([0, 10**9, rng.randrange(10**12)])
        t, rd = start, []
        for _ in range(rng.randint(0, 4)):
            t += rng.choice([0, 1, 999, 1000, tv // 2, tv - 1, tv, tv + 1, tv + 1000, rng.randrange(0, 2 * tv + 2)])
            rd.append(t)
        cases.append("%d %d %s" % (tv, start, " ".join(map(str, rd))))
    inp = ("\n".join(cases) + "\n").encode()
    rc1, o1, e1 = vlib.sh(["timeout", "-s", "KILL", "60", exe], shell=False, inp=inp, timeout=70, env={"ASAN_OPTIONS": "detect_leaks=0"})
    rc2, o2, e2 = vlib.sh(["timeout", "-s", "KILL", "60", model], shell=False, inp=inp, timeout=70)
    if rc1 != 0 or rc2 != 0:
        V.tie_broken("correspondence", "R-XPOLL", "harness rc=%s model rc=%s %s %s" % (rc1, rc2, e1[-300:], e2[-300:])); return
    for c, a, b in zip(cases, o1.splitlines(), o2.splitlines()):
        V.case(("xpoll", c), nontrivial=len(c.split()) > 2); V.count("xpoll-cases")
        tmos = [int(x) for x in a.split()[1:]]
        if not c.startswith("-") and any(t < 0 for t in tmos):
            V.violation("no-timerless-wait", "xpoll-negative-timeout", dict(case=c, poll_timeouts=tmos),
                        "xpoll was asked for a finite wait but handed poll a negative (infinite) time-out after EINTR: %s -> %s" % (c, tmos))
        elif a != b:
            V.tie_broken("correspondence", "R-XPOLL", "case %s: implementation %s, model %s" % (c, a, b), case=c)
    V.rule = (V.rule + " || " if V.rule else "") + "R-XPOLL: xpoll() with interrupted poll calls (clock readings before/at/after the deadline) vs Model/Xpoll.v; monitor: no negative time-out for a finite wait"


def run(ctx, V):
    proofs_ok = vlib.proof_gate(ctx, V, extract=["Extract/ExDaemon.vo", "Extract/ExEnqueue.vo", "Extract/ExXpoll.vo"])
    xpoll_correspond(ctx, V)
    exe = pmsim.build(ctx)
    rsim(ctx, V, exe, int(os.environ.get('C04_N', 0)) or 300 if ctx.tier == "quick" else 6000, styles=("mixed", "faults", "healthy"), prefix="c04")


def replay(ctx, V, path):
    print(json.dumps(json.load(open(path)), indent=1)[:6000]); return 0
