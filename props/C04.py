"""C04 - every request gets exactly one final answer, in bounded time (DESIGN §5 C04).
   Engine R-SIM: recorded runs of the real powermand under the virtual OS (harness/pmsim.c) are replayed pass by pass through
   the extracted whole-daemon model Model/Daemon.v; the whole-daemon monitors are evaluated on the implementation's behaviour."""
import json, os
from concurrent.futures import ThreadPoolExecutor
import vlib, pmcheck, pmsim, pmgen, pmreplay


def version_of(ctx):
    import re
    m = re.search(r'#define PACKAGE_VERSION "([^"]*)"', open(os.path.join(ctx.repo, "config/config.h")).read())
    return m.group(1) if m else "verif"


def rsim(ctx, V, exe, n, styles=("healthy", "mixed", "faults"), prefix="rsim", monitors=("alive", "protocol", "wedge"), gen=None):
    """run n scenarios on pmsim, apply the monitors, replay every run through the model"""
    import C01
    consts = pmgen.load_genconsts(ctx.coq)
    enq = C01.build_enq(ctx)
    model = pmreplay.build_model(ctx)
    version = version_of(ctx)
    gen = gen or pmcheck.gen_scenario
    scs = [gen(ctx.rng, style=styles[i % len(styles)]) for i in range(n)]
    sessions = pmcheck.run_batch(ctx, V, exe, scs, list(monitors), prefix)

    def one(x):
        sc, sess = x
        if isinstance(sess, Exception):
            return None
        try:
            return pmreplay.replay_session(model, enq, sess, consts, version)
        except vlib.TieBroken as ex:
            return (0, (0, str(ex), None, None))
        except Exception as ex:
            return (0, (0, "replay failed: %r" % (ex,), None, None))
    with ThreadPoolExecutor(16) as ex:
        res = list(ex.map(one, zip(scs, sessions)))
    npass = 0
    for sc, sess, r in zip(scs, sessions, res):
        if r is None:
            continue
        k, diff = r
        if diff == "skipped-telnet":
            V.count("rsim-skipped-telnet"); continue
        V.count("rsim-replayed")
        npass += k
        V.count("rsim-passes", k)
        if diff is not None:
            w = sc.describe(); w["events"] = sess.sim.events
            V.tie_broken("correspondence", "R-SIM", diff[1], case=w)
    V.rule = (V.rule + " || " if V.rule else "") + ("R-SIM: every run is replayed through the extracted Model/Daemon.v (the OS answers of each pass - revents, bytes read/written, "
              "connect results, clock - are the model's input) and compared after EVERY pass: bytes written per client and per device, accepts, client closes, "
              "connect attempts, the time-out handed to poll, open descriptors, live children, every device's (connect state, logged_in, fd, retry_count, counters, queue length)")
    return sessions


def run(ctx, V):
    proofs_ok = vlib.proof_gate(ctx, V, extract=["Extract/ExDaemon.vo", "Extract/ExEnqueue.vo"])
    exe = pmsim.build(ctx)
    rsim(ctx, V, exe, int(os.environ.get('C04_N', 0)) or 300 if ctx.tier == "quick" else 6000, styles=("mixed", "faults", "healthy"), prefix="c04")


def replay(ctx, V, path):
    print(json.dumps(json.load(open(path)), indent=1)[:6000]); return 0
