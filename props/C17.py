"""C17 -- every shipped device specification loads and is format-safe.

proof      Properties/C17.v over Gen/GenSpecs.v (regenerated from the .dev files of the current tree)
R-SPEC     harness/specdump.c (REAL bison/flex parser + glibc regcomp) vs gen/devparse.py (+ RegexSyn.ngroups from the
           extracted model): identical Stmt trees / timeouts / plugs / group counts on every shipped file and on
           mutated copies; acceptance / refusal must agree too
R-CTX      the real _process_action run over every shipped script with device replies faked: the plug argument
           hsprintf receives for every send vs SpecCheck.script_sends
monitor    SpecCheck.spec_failures (extracted) evaluated on the trees the REAL parser built; a failure names
           file:line, script, statement and rule
"""
import os, sys, re, json, ctypes, glob
import vlib
sys.path.insert(0, os.path.join(vlib.VERIF, "gen"))
import devparse, gen_specs

DUMMY = ('specification "zz_dummy_spec" { timeout 1 script login { send "x" } }\n'
         'device "zz_dummy" "zz_dummy_spec" "cat |&"\nnode "zz_node" "zz_dummy"\n')


# ------------------------------------------------------------------------------------------ helpers
def lexquote(b):
    """bytes -> text of a string literal the lexer reads back as b"""
    out = bytearray(b'"')
    for c in b:
        if c in (0x5c, 0x22):
            out += bytes([0x5c, c])
        elif c == 0x0a:
            out += b"\\n"
        else:
            out.append(c)
    out += b'"'
    return bytes(out)


def wrapper(devpath, specs, with_nodes):
    """wrapper config: dummy device (conf_init wants >= 1 node), include, one device per specification"""
    w = bytearray(DUMMY.encode())
    w += b'include "' + devpath.encode() + b'"\n'
    for k, s in enumerate(devparse.first_of_name(specs) if specs else []):
        w += b'device "d%d" ' % k + lexquote(s.name) + b' "cat |&"\n'
        if with_nodes:
            n = 3 if s.plugs is None else (len(s.plugs) if len(s.plugs) <= 200 else 3)   # all plugs mapped: _all scripts become selectable
            w += b'node "n%d_[0-%d]" "d%d"\n' % (k, n - 1, k)
    return bytes(w)


_libc = None


def regcomp_ok(pat, nosub):
    """does glibc accept the pattern xregex_compile would hand to regcomp?  (independent call through ctypes)"""
    global _libc
    if _libc is None:
        _libc = ctypes.CDLL("libc.so.6")
    if len(pat) > 256:
        return False
    p = pat.replace(b"\\r", b"\r").replace(b"\\n", b"\n")
    buf = ctypes.create_string_buffer(512)
    rc = _libc.regcomp(buf, ctypes.c_char_p(p), 1 | (8 if nosub else 0))
    if rc == 0:
        _libc.regfree(buf)
    return rc == 0


def patterns_compile(specs):
    def walk(stmts):
        for st in stmts:
            if st.kind == "expect" and not regcomp_ok(st.text, False):
                return False
            for (_, r) in st.interps:
                if not regcomp_ok(r, True):
                    return False
            if st.body and not walk(st.body):
                return False
        return True
    return all(walk(b) for s in devparse.first_of_name(specs) for (_, b, _, _, _) in s.scripts)


def stmt_at(body, path):
    st = None
    for i in path:
        st = body[i]
        body = st.body
    return st


# ------------------------------------------------------------------------------------------ mutation
SEND_FRAGS = [b"%d", b"%s", b"%%", b"%n", b"%5s", b"%-3.2s", b"%*s", b"%ld", b"%", b"%1$s", b"%m", b"%c", b"%x", b"%.*s", b"%hhd", b"% s"]
RE_FRAGS = [b"(", b")", b"()", b"(a)", b"[(]", b"[)]", b"\\\\(", b"\\\\)", b"[^]()]", b"[[:alpha:](]", b"(x|y)",
            b"\\\\\\\\(", b"[", b"]", b"\\\\n(", b"\\\\r", b"*", b"+", b"{2}", b"[a-", b"[]()]", b"[^(]", b"((b))",
            b"[[.(.]]", b"[[=(=]]", b"\\\\[(", b"[\\\\](]", b"(|)", b"[[:digit:]]+(", b"\\\\\\\\r(", b"^(", b"($)"]
ESC_FRAGS = [b"\\n", b"\\r", b"\\t", b"\\\\", b'\\"', b"\\101", b"\\0", b"\\9", b"\\e", b"\\x", b"\\08", b"\\777", b"\\a1", b"\\1234"]
MP_VALUES = [b"0", b"1", b"2", b"3", b"4", b"5", b"9", b"19", b"20", b"21", b"22", b"010", b"08", b"1.5", b"4294967297", b"00", b"2."]
NUM_VALUES = [b"0", b"0.5", b".25", b"3.", b"1.1", b"2.3", b"100", b"0.000001", b"07", b"1.1.1", b"5e", b"00.10", b"4.7"]
SCRIPT_KWS = sorted(set(devparse.SCRIPT_KEYWORD.values()))
KW_SWAP = {b"expect": b"send", b"send": b"expect", b"foreachplug": b"foreachnode", b"foreachnode": b"foreachplug",
           b"ifon": b"ifoff", b"ifoff": b"ifon", b"setplugstate": b"setresult", b"setresult": b"setplugstate",
           b"on": b"off", b"off": b"on", b"success": b"on", b"timeout": b"pingperiod"}


def mutate(rng, data, toks):
    """one random edit of a device file; returns (kind, new bytes).  toks: devparse.lex(data) without EOF"""
    n = len(toks)
    gaps = [data[(toks[i - 1].end if i else 0):toks[i].start] for i in range(n)] + [data[toks[-1].end:]]
    txt = [data[t.start:t.end] for t in toks]
    kind = rng.choice(["del", "dup", "swapadj", "swaprand", "mp", "num", "sendfrag", "refrag", "escfrag", "delscript",
                       "deltimeout", "wrap", "scriptkw", "kwswap", "comment", "glue", "mp", "sendfrag", "refrag", "refrag"])

    def pick(pred):
        idx = [i for i in range(n) if pred(i)]
        return rng.choice(idx) if idx else None

    def instr(i, frag):
        t = txt[i]
        pos = rng.randint(1, len(t) - 1)
        # do not split an escape sequence: move left past backslashes
        while pos > 1 and t[pos - 1:pos] == b"\\":
            pos -= 1
        txt[i] = t[:pos] + frag + t[pos:]

    if kind == "del":
        i = rng.randrange(n); txt[i] = b""
    elif kind == "dup":
        i = rng.randrange(n); txt[i] = txt[i] + b" " + txt[i]
    elif kind == "swapadj" and n > 1:
        i = rng.randrange(n - 1); txt[i], txt[i + 1] = txt[i + 1], txt[i]
    elif kind == "swaprand" and n > 1:
        i, j = rng.randrange(n), rng.randrange(n); txt[i], txt[j] = txt[j], txt[i]
    elif kind == "mp":
        i = pick(lambda i: toks[i].kind == "NUMERIC" and i and toks[i - 1].kind == "MATCHPOS")
        if i is not None:
            txt[i] = rng.choice(MP_VALUES)
    elif kind == "num":
        i = pick(lambda i: toks[i].kind == "NUMERIC" and i and toks[i - 1].kind != "MATCHPOS")
        if i is not None:
            txt[i] = rng.choice(NUM_VALUES)
    elif kind == "sendfrag":
        i = pick(lambda i: toks[i].kind == "STRING" and i and toks[i - 1].kind == "SEND")
        if i is not None:
            instr(i, rng.choice(SEND_FRAGS))
    elif kind == "refrag":
        i = pick(lambda i: toks[i].kind == "STRING" and i and toks[i - 1].kind in ("EXPECT", "EQUALS"))
        if i is not None:
            instr(i, rng.choice(RE_FRAGS))
    elif kind == "escfrag":
        i = pick(lambda i: toks[i].kind == "STRING")
        if i is not None:
            instr(i, rng.choice(ESC_FRAGS))
    elif kind == "delscript":
        # remove a whole script (the login script half of the time)
        starts = [i for i in range(n) if toks[i].kind == "SCRIPT"]
        logins = [i for i in starts if i + 1 < n and toks[i + 1].kind == "LOGIN"]
        if starts:
            i = rng.choice(logins) if logins and rng.random() < 0.5 else rng.choice(starts)
            depth, j = 0, i
            while j < n:
                if toks[j].kind == "BEGIN":
                    depth += 1
                elif toks[j].kind == "END":
                    depth -= 1
                    if depth == 0:
                        break
                j += 1
            for k in range(i, min(j + 1, n)):
                txt[k] = b""
    elif kind == "deltimeout":
        i = pick(lambda i: toks[i].kind == "DEV_TIMEOUT")
        if i is not None:
            txt[i] = b""
            if i + 1 < n:
                txt[i + 1] = b""
    elif kind == "wrap":
        i = pick(lambda i: toks[i].kind in ("SEND", "EXPECT", "SETPLUGSTATE", "DELAY"))
        if i is not None and i + 1 < n:
            kw = rng.choice([b"foreachplug", b"foreachnode", b"ifon", b"ifoff"])
            txt[i] = kw + b" { " + txt[i]
            txt[i + 1] = txt[i + 1] + b" }"
    elif kind == "scriptkw":
        i = pick(lambda i: i and toks[i - 1].kind == "SCRIPT")
        if i is not None:
            txt[i] = rng.choice(SCRIPT_KWS).encode()
    elif kind == "kwswap":
        i = pick(lambda i: txt[i] in KW_SWAP)
        if i is not None:
            txt[i] = KW_SWAP[txt[i]]
    elif kind == "comment":
        i = rng.randrange(n + 1)
        gaps[i] = gaps[i] + rng.choice([b"# c\n", b"#\n", b" #x", b"\n\n", b"\t", b"\r"])
    elif kind == "glue":
        i = rng.randrange(1, n) if n > 1 else 0
        gaps[i] = b""
    out = bytearray()
    for i in range(n):
        out += gaps[i] + txt[i]
    out += gaps[n]
    return kind, bytes(out)


# ------------------------------------------------------------------------------------------ running both sides
class Side:
    pass


def run_specdump(ctx, exe, reqs):
    """reqs: [(mode 'D'|'X', wrapper path)] -> list of (status dict, dump lines, exec lines)"""
    inp = "".join("%s %s\n" % (m, p) for (m, p) in reqs).encode()
    rc, o, e = vlib.sh(["timeout", "-s", "KILL", "900", exe], shell=False, timeout=930, inp=inp,
                       env={"ASAN_OPTIONS": "detect_leaks=0:abort_on_error=0", "UBSAN_OPTIONS": "print_stacktrace=0"})
    if rc != 0:
        raise vlib.TieBroken("specdump driver failed rc=%d: %s" % (rc, e[-1500:]))
    res, cur, cur_x, inx = [], None, None, False
    for l in o.split("\n"):
        if l.startswith("BEGIN "):
            cur, cur_x, inx = [], [], False
        elif l.startswith("STATUS "):
            m = re.match(r"STATUS exit=(-?\d+) sig=(\d+) err=(\S+)", l)
            err = "" if m.group(3) == "-" else bytes.fromhex(m.group(3)).decode("latin-1")
            res.append((dict(exit=int(m.group(1)), sig=int(m.group(2)), err=err), cur, cur_x))
            cur = None
        elif cur is not None and l:
            if l.startswith("XSPEC "):
                inx = True
            (cur_x if inx else cur).append(l)
    if len(res) != len(reqs):
        raise vlib.TieBroken("specdump answered %d of %d requests" % (len(res), len(reqs)))
    return res


def run_model(ctx, exe, batches):
    """batches: [(id, dump lines without nsub)] -> {id: dict(dump=[..], fails=[..], sends={..}, ok=[..])}"""
    inp = []
    for (i, lines) in batches:
        inp.append("FILE %s" % i)
        inp += lines
        inp.append("ENDFILE")
    rc, o, e = vlib.sh(["timeout", "-s", "KILL", "600", exe], shell=False, timeout=630, inp=("\n".join(inp) + "\n").encode())
    if rc != 0:
        raise vlib.TieBroken("extracted model driver failed rc=%d: %s" % (rc, (o[-500:] + e[-1500:])))
    out, cur = {}, None
    for l in o.split("\n"):
        w = l.split()
        if not w:
            continue
        if w[0] == "FILE":
            cur = dict(dump=[], fails=[], sends={}, ok=[], top={})
            out[w[1]] = cur
        elif w[0] == "FAIL":
            cur["fails"].append(dict(spec=int(w[1]), rule=w[2], script=int(w[3]), path=[] if w[4] == "-" else [int(x) for x in w[4].split(".")]))
        elif w[0] == "TOP":
            cur["top"][(int(w[1]), int(w[2]))] = int(w[3])
        elif w[0] == "SEND":
            cur["sends"][(int(w[1]), int(w[2]), w[3])] = int(w[4])
        elif w[0] == "OK":
            cur["ok"].append((int(w[2]), int(w[3])))
        elif w[0] == "ENDFILE":
            cur = None
        else:
            cur["dump"].append(l)
    return out


def strip_nsub(lines):
    out = []
    for l in lines:
        w = l.split()
        if len(w) >= 2 and w[1] in ("EXPECT", "INTERP"):
            out.append(" ".join(w[:-1]))
        else:
            out.append(l)
    return out


def first_diff(a, b):
    for i in range(max(len(a), len(b))):
        x = a[i] if i < len(a) else "<end>"
        y = b[i] if i < len(b) else "<end>"
        if x != y:
            return "line %d: model `%s`  real parser `%s`" % (i, x, y)
    return ""


def locate(specs, fail):
    """file line / script keyword / statement text of a failure (spec index counts first-of-name specs)"""
    sl = devparse.first_of_name(specs)
    if fail["spec"] >= len(sl):
        return None
    s = sl[fail["spec"]]
    d = dict(spec=s.name.decode("latin-1"), line=s.line, script=None, stmt=None)
    for (pm, body, line, _, _) in s.scripts:
        if NUM[pm] == fail["script"]:
            d["script"] = devparse.SCRIPT_KEYWORD[pm]
            d["line"] = line
            try:
                st = stmt_at(body, fail["path"]) if fail["path"] else None
            except IndexError:
                st = None
            if st is not None:
                d["line"] = st.line
                d["stmt"] = st.kind + (" " + repr(st.text.decode("latin-1")) if st.text is not None else "") + \
                    ((" $%d $%d" % (st.plug_mp, st.stat_mp)) if st.kind in ("setplugstate", "setresult") else "")
    return d


NUM = {}


def build(ctx):
    r = ctx.repo
    ctx.regen_parser()
    srcs = [vlib.VERIF + "/harness/specdump.c"] + [r + "/src/powerman/" + f for f in
            ("parse_tab.c", "parse_lex.c", "parse_util.c", "arglist.c", "debug.c", "device_tcp.c",
             "device_pipe.c", "device_serial.c")] + \
        sorted(f for f in glob.glob(r + "/src/libcommon/*.c") if not f.endswith("/xregex.c")) + sorted(glob.glob(r + "/src/liblsd/*.c"))
    impl = ctx.cc_parallel(srcs, "specdump")
    model = ctx.ocaml_driver("spec_model", "specmodel", "spec_drv.ml")
    return impl, model


def shipped_cases(ctx):
    found, unlisted, missing = gen_specs.shipped(ctx.repo)
    return found, unlisted, missing


def check_files(ctx, V, impl, model, cases, exec_mode, label):
    """cases: [(id, relname or None, bytes)].  Runs both sides; returns per-case result dicts."""
    wdir = os.path.join(ctx.scratch, "c17." + label)
    os.makedirs(wdir, exist_ok=True)
    reqs, parsed = [], []
    for k, (cid, rel, data) in enumerate(cases):
        devp = os.path.join(wdir, "f%d.dev" % k)
        with open(devp, "wb") as fh:
            fh.write(data)
        specs, verdict, why = None, "accept", ""
        try:
            specs = devparse.parse(data)
            if not patterns_compile(specs):
                verdict, why = "refuse", "regcomp"
        except devparse.Refuse as ex:
            verdict, why = "refuse", str(ex)
        except devparse.Unsupported as ex:
            verdict, why = "unsupported", str(ex)
        with open(os.path.join(wdir, "f%d.conf" % k), "wb") as fh:
            fh.write(wrapper(devp, specs, exec_mode and verdict == "accept"))
        reqs.append(("X" if exec_mode and verdict == "accept" else "D", os.path.join(wdir, "f%d.conf" % k)))
        parsed.append(dict(id=cid, rel=rel, data=data, specs=specs, verdict=verdict, why=why))
    real = run_specdump(ctx, impl, reqs)
    batches = []
    for k, p in enumerate(parsed):
        if p["specs"] is not None:
            batches.append(("m%d" % k, devparse.dump(p["specs"], NUM)))
        st, dump, xlog = real[k]
        p["real"] = st
        p["real_dump"] = dump
        p["xlog"] = xlog
        if (st["exit"] == 0 and st["sig"] == 0) or xlog:       # xlog non-empty: parsed and dumped, died while executing
            batches.append(("r%d" % k, strip_nsub(dump)))
    mod = run_model(ctx, model, batches)
    for k, p in enumerate(parsed):
        p["m"] = mod.get("m%d" % k)
        p["r"] = mod.get("r%d" % k)
    return parsed


CTX_HITS = []           # hsprintf calls of the real interpreter with a %s and no argument


def flush_ctx_violations(V):
    if CTX_HITS:
        w = dict(CTX_HITS[0])
        seen, also = set([w["text"]]), []
        for h in CTX_HITS[1:]:
            if h["text"] not in seen:
                seen.add(h["text"]); also.append(h["text"])
        w["also"] = also[:60]
        V.violation("meaning_send", "%s:%d" % (w["file"], w["script_index"]), w,
                    w["text"] + ("" if not also else "   (+ %d more sends, listed under `also`)" % len(also)))
        del CTX_HITS[:]


RULE_HITS = {}          # rule -> [witness dict, ...]   (one VIOLATION per rule; the first hit is the site)


def violation_for(V, p, fail, origin):
    loc = locate(p["specs"], fail) if p["specs"] is not None else None
    where = "%s:%s" % (p["rel"] or p["id"], loc["line"] if loc else "?")
    w = dict(file=p["rel"], where=where, rule=fail["rule"], script_index=fail["script"], path=fail["path"],
             specification=(loc or {}).get("spec"), script=(loc or {}).get("script"), statement=(loc or {}).get("stmt"),
             seen_by=origin,
             text="%s: rule `%s` violated in specification \"%s\" script %s statement %s %s" % (
                 where, fail["rule"], (loc or {}).get("spec"), (loc or {}).get("script") or fail["script"],
                 ".".join(map(str, fail["path"])) or "-", (loc or {}).get("stmt") or ""))
    RULE_HITS.setdefault(fail["rule"], []).append(w)


def flush_rule_violations(V):
    for rule, hits in sorted(RULE_HITS.items()):
        w = dict(hits[0])
        if len(hits) > 1:
            w["also"] = [h["text"] for h in hits[1:60]]
        V.violation("rule_" + rule, "%s:%s" % (w["file"], w["script"] or w["script_index"]), w,
                    w["text"] + ("" if len(hits) == 1 else "   (+ %d more statements, listed under `also`)" % (len(hits) - 1)))
    RULE_HITS.clear()


def run(ctx, V):
    global NUM
    proofs_ok = vlib.proof_gate(ctx, V)
    NUM = devparse.read_numbers(ctx.repo)
    devparse.configure(ctx.repo)
    # the extracted model must reflect the regenerated Gen/GenConsts.v (MAX_MATCH_POS, script tables) of THIS tree
    ok, log, failing = ctx.coq_make(["Extract/ExSpec.vo"])
    if not ok:
        raise vlib.TieBroken("extraction of the C17 model failed: " + log[-1500:])
    impl, model = build(ctx)
    V.rule = ("every .dev file of etc/devices and t/etc of the current tree (exhaustive) + token/format/regex/number mutations of them; "
              "non-trivial = the real parser and the independent reader were both run and compared (shipped: also executed through "
              "_process_action for the plug-context comparison; mutants: accepted with a tree that differs from the original, or refused)")
    V.exhaustive = True

    # ---- enumeration of the shipped set
    found, unlisted, missing = shipped_cases(ctx)
    for f in unlisted:
        V.violation("enumeration", f, dict(file=f, kind="unlisted"), "%s exists in the tree but is not listed in Makefile.am (would not be installed / distributed, and was not swept before)" % f)
    for f in missing:
        V.violation("enumeration", f, dict(file=f, kind="missing"), "%s is listed in Makefile.am but does not exist" % f)

    # ---- the fingerprints in the regenerated Gen/GenSpecs.v (what C17_terms_faithful is about)
    gtxt = open(os.path.join(ctx.coq, "Gen", "GenSpecs.v")).read()
    m = re.search(r"Definition spec_digests : list N := \[([^\]]*)\]", gtxt)
    digests = [int(x) for x in m.group(1).split(";") if x.strip()] if m else []
    gen_entries = re.findall(r"\(\* ([^ ]+) \*\), (spec_\d+)\)", gtxt[gtxt.find("Definition all_specs"):gtxt.find("Definition shipped_files")])
    if len(digests) != len(gen_entries):
        V.tie_broken("tie", "translator", "GenSpecs.v: %d fingerprints for %d specifications" % (len(digests), len(gen_entries)))
    # ---- corpus + shipped files: R-SPEC, R-CTX, monitor
    cases = [(f, f, open(os.path.join(ctx.repo, f), "rb").read()) for f in found]
    res = check_files(ctx, V, impl, model, cases, True, "shipped")
    tot = dict(files=0, specs=0, scripts=0, stmts=0, patterns=0, sends=0, hsprintf_calls=0, actions=0, sends_observed=0)
    refused, aborted = [], []
    for p in res:
        V.case(("shipped", p["id"]), True)
        V.count("shipped:" + p["verdict"])
        tot["files"] += 1
        st = p["real"]
        accepted = st["exit"] == 0 and st["sig"] == 0
        if not accepted and p["xlog"]:
            # the file was parsed and dumped; the REAL interpreter died while executing one of its scripts
            lastq = [l for l in p["xlog"] if l.startswith("Q ")][-1:] or ["?"]
            aborted.append(dict(file=p["rel"], request=lastq[0], exit=st["exit"], sig=st["sig"], stderr=st["err"][:300],
                                text="%s: the real _process_action died (exit=%d sig=%d) executing request `%s` with faked device replies: %s" % (
                                    p["rel"], st["exit"], st["sig"], lastq[0], st["err"][:200].strip())))
            accepted = True
        # monitor 1: the real parser loads the file, all patterns compile
        if not accepted:
            refused.append(dict(file=p["rel"], exit=st["exit"], sig=st["sig"], stderr=st["err"][:300]))
            if p["verdict"] == "accept":
                V.tie_broken("correspondence", "R-SPEC", "%s: independent reader accepts, real parser refuses (%s)" % (p["rel"], st["err"][:200]), case=p["rel"])
            continue
        if p["verdict"] != "accept":
            V.tie_broken("correspondence", "R-SPEC", "%s: real parser accepts, independent reader: %s %s" % (p["rel"], p["verdict"], p["why"]), case=p["rel"])
        # monitor 2: the rules on the trees the real parser built
        for fl in p["r"]["fails"]:
            violation_for(V, p, fl, "real parser's tree")
        if p["m"] is not None:
            for fl in p["m"]["fails"]:
                if fl not in p["r"]["fails"]:
                    violation_for(V, p, fl, "independent reader's tree")
            # the fingerprints proved of the Coq terms (C17_terms_faithful) are those of the real parser's trees
            try:
                real_dg = [devparse.digest_plain(x) for x in devparse.plain_of_dump(p["real_dump"])]
            except Exception as ex:
                real_dg = "unreadable dump: %r" % ex
            want_dg = [digests[i] for i, (f, _) in enumerate(gen_entries) if f == p["rel"]]
            if real_dg != want_dg:
                V.tie_broken("correspondence", "R-SPEC", "%s: fingerprint of the real parser's trees %s differs from the fingerprint of the Coq terms %s" % (p["rel"], real_dg, want_dg), case=p["rel"])
            # R-SPEC
            if p["m"]["dump"] != p["real_dump"]:
                V.tie_broken("correspondence", "R-SPEC", "%s: %s" % (p["rel"], first_diff(p["m"]["dump"], p["real_dump"])), case=p["rel"])
            else:
                tot["specs"] += len(p["m"]["ok"])
                tot["stmts"] += sum(n for (_, n) in p["m"]["ok"])
                tot["scripts"] += sum(1 for l in p["real_dump"] if l.startswith("SCRIPT "))
                tot["patterns"] += sum(1 for l in p["real_dump"] if len(l.split()) > 1 and l.split()[1] in ("EXPECT", "INTERP"))
        # R-CTX + monitor 3: what hsprintf really received
        check_ctx(ctx, V, p, tot)
    flush_rule_violations(V)
    flush_ctx_violations(V)
    if aborted:
        w = dict(aborted[0]); w["also"] = [a["text"] for a in aborted[1:60]]
        V.violation("interpreter_abort", w["file"], w, w["text"] + ("" if len(aborted) == 1 else "   (+ %d more files)" % (len(aborted) - 1)))
    if refused:
        r0 = refused[0]
        V.violation("loads", r0["file"] if len(refused) == 1 else "parser", dict(file=r0["file"], exit=r0["exit"], sig=r0["sig"], stderr=r0["stderr"], all_refused=[r["file"] for r in refused]),
                    "the real parser refuses %d shipped file(s), first %s: exit=%d sig=%d %s" % (len(refused), r0["file"], r0["exit"], r0["sig"], r0["stderr"][:200].strip()))
    V.extra["shipped"] = tot
    V.sample("shipped: %d files, %d specifications, %d scripts, %d statements, %d patterns compiled by glibc; %d hsprintf calls of %d actions observed, covering %d of %d send statements" % (
        tot["files"], tot["specs"], tot["scripts"], tot["stmts"], tot["patterns"], tot["hsprintf_calls"], tot["actions"], tot["sends_observed"], tot["sends"]))

    # ---- corpus + mutants: R-SPEC off the happy path
    n_mut = 200 if ctx.tier == "quick" else 2000
    if V.broken or V.violations:
        n_mut *= 3            # search harder around a disagreement
    cases = []
    for f in sorted(glob.glob(os.path.join(vlib.VERIF, "corpus", "C17", "*.dev"))):
        cases.append(("corpus/" + os.path.basename(f), None, open(f, "rb").read()))
    origs = [(p["rel"], p["data"], [t for t in devparse.lex(p["data"]) if t.kind != "EOF"]) for p in res if p["specs"] is not None]
    for k in range(n_mut):
        rel, data, toks = origs[ctx.rng.randrange(len(origs))]
        kind, new = mutate(ctx.rng, data, toks)
        if ctx.rng.random() < 0.25:                      # sometimes a second edit
            try:
                t2 = [t for t in devparse.lex(new) if t.kind != "EOF"]
                if t2:
                    k2, new = mutate(ctx.rng, new, t2)
                    kind += "+" + k2
            except (devparse.Refuse, devparse.Unsupported):
                pass
        cases.append(("mut%d:%s:%s" % (k, rel, kind), None, new))
    mres = check_files(ctx, V, impl, model, cases, False, "mut")
    orig_dump = {p["rel"]: p["real_dump"] for p in res}
    rule_hits = {}
    for p in mres:
        st = p["real"]
        accepted = st["exit"] == 0 and st["sig"] == 0
        kind = p["id"].split(":")[-1] if p["id"].startswith("mut") else "corpus"
        if p["verdict"] == "unsupported":
            V.case(("mut", p["id"]), False)
            V.count("mutant:unsupported")
            continue
        if st["sig"] != 0 or st["exit"] not in (0, 1):
            # the parser crashed (sanitizer / signal): not a C17 matter unless the reader predicted acceptance
            V.count("mutant:real-parser-crash")
            if p["verdict"] == "accept":
                V.tie_broken("correspondence", "R-SPEC", "%s: real parser crashed exit=%d sig=%d %s" % (p["id"], st["exit"], st["sig"], st["err"][:300]),
                             case=dict(id=p["id"], data=vlib.hexs(p["data"])))
            continue
        if accepted != (p["verdict"] == "accept"):
            V.case(("mut", p["id"]), True)
            V.tie_broken("correspondence", "R-SPEC", "%s: real parser %s, independent reader %s (%s %s)" % (
                p["id"], "accepts" if accepted else "refuses", p["verdict"], p["why"], st["err"][:200].strip()),
                case=dict(id=p["id"], data=vlib.hexs(p["data"])))
            continue
        if not accepted:
            V.case(("mut", p["id"], "refused"), True)
            V.count("mutant:refused-by-both")
            V.count("mutkind:" + kind.split("+")[0])
            continue
        same = p["m"]["dump"] == p["real_dump"]
        if not same:
            V.case(("mut", p["id"]), True)
            V.tie_broken("correspondence", "R-SPEC", "%s: %s" % (p["id"], first_diff(p["m"]["dump"], p["real_dump"])),
                         case=dict(id=p["id"], data=vlib.hexs(p["data"])))
            continue
        src = p["id"].split(":")[1] if p["id"].startswith("mut") else None
        changed = src is None or orig_dump.get(src) != p["real_dump"]
        V.case(("mut", p["id"], tuple(p["real_dump"]) if changed else None), changed)
        V.count("mutant:accepted-" + ("changed-tree" if changed else "same-tree"))
        V.count("mutkind:" + kind.split("+")[0])
        for fl in p["r"]["fails"]:
            rule_hits[fl["rule"]] = rule_hits.get(fl["rule"], 0) + 1
        if p["r"]["fails"]:
            V.count("mutant:violates-a-rule")
    V.extra["mutants_violating_rule"] = rule_hits
    V.sample("mutants: %s; rules tripped by accepted mutants: %s" % (
        {k: v for k, v in V.dist.items() if k.startswith("mutant:")}, rule_hits))
    V.assumptions.append("C17: the execution semantics Spec/SpecCheckSpec.v (`run`) is a hand-written over-approximation of device.c's "
                         "_process_stmt family; its plug-context component is compared with the real interpreter on every shipped script (R-CTX), "
                         "the rest (an expect precedes, groups) follows program order as read from _process_action")
    V.assumptions.append("C17: glibc regcomp decides 'pattern compiles'; RegexSyn.ngroups is compared with re_nsub on every shipped pattern and on mutated ones")


def check_ctx(ctx, V, p, tot):
    """R-CTX: hsprintf calls of the real interpreter vs SpecCheck.script_sends; top-level plugs vs top_arg"""
    if p["r"] is None:
        return
    sends = p["r"]["sends"]                 # (spec k, script, path) -> predicted arg presence
    tot["sends"] += len(sends)
    seen = set()
    k = -1
    for l in p["xlog"]:
        w = l.split()
        if (w[0] == "H" and len(w) != 5) or (w[0] == "A" and len(w) != 3):
            continue                       # line cut short by a dying child
        if w[0] == "XSPEC":
            k += 1
        elif w[0] == "A":
            tot["actions"] += 1
            com, plugs = int(w[1]), w[2]
            want = p["r"]["top"].get((k, com))
            if want is None or want != (0 if plugs == "NULL" else 1):
                V.tie_broken("correspondence", "R-CTX", "%s: action for script %d created with plugs=%s, model top_arg=%s" % (p["rel"], com, plugs, want), case=p["rel"])
        elif w[0] == "GUARD":
            V.tie_broken("correspondence", "R-CTX", "%s: script did not finish under faked replies" % p["rel"], case=p["rel"])
        elif w[0] == "H":
            tot["hsprintf_calls"] += 1
            script, path, arg = int(w[1]), w[2], int(w[3])
            key = (k, script, path)
            if key not in sends:
                V.tie_broken("correspondence", "R-CTX", "%s: hsprintf call for a send the model does not list: %s" % (p["rel"], l), case=p["rel"])
                continue
            seen.add(key)
            if sends[key] != arg:
                # what does the format need?  a %s without an argument is a concrete format-safety violation
                st = None
                try:
                    s = devparse.first_of_name(p["specs"])[k]
                    body = [b for (pm, b, _, _, _) in s.scripts if NUM[pm] == script][0]
                    st = stmt_at(body, [int(x) for x in path.split(".")])
                except Exception:
                    pass
                needs = st is not None and b"%s" in st.text.replace(b"%%", b"")
                detail = "%s:%s script %d statement %s: hsprintf(%r, %s) but the model predicts %s" % (
                    p["rel"], st.line if st else "?", script, path, st.text if st else "?", "NULL" if not arg else "plug", "an argument" if sends[key] else "NULL")
                if needs and not arg:
                    CTX_HITS.append(dict(file=p["rel"], script_index=script, path=path, fmt=vlib.hexs(st.text), arg=None, text=detail))
                if sum(1 for b in V.broken if b["name"] == "R-CTX") < 5:
                    V.tie_broken("correspondence", "R-CTX", detail, case=p["rel"])
    tot["sends_observed"] += len(seen)


def replay(ctx, V, path):
    global NUM
    rec = json.load(open(path))
    case = rec.get("case") or {}
    ctx.copy_repo()
    ctx.copy_coq()
    try:
        ctx.regen()
    except vlib.TieBroken as ex:
        print("note: a translator fails on the current tree (%s); continuing with the last generated constants" % str(ex)[:200])
    ok, log, failing = ctx.coq_make(["Extract/ExSpec.vo"])
    NUM = devparse.read_numbers(ctx.repo)
    devparse.configure(ctx.repo)
    impl, model = build(ctx)
    if rec.get("verdict") == "unproved":
        print("recorded: %s" % json.dumps(rec.get("no_longer_checks"), indent=1)[:3000])
        b = (rec.get("no_longer_checks") or [{}])[0]
        c = b.get("case")
        if isinstance(c, dict) and "data" in c:
            cases = [(c["id"], None, bytes.fromhex(c["data"]))]
        elif isinstance(c, str) and os.path.exists(os.path.join(ctx.repo, c)):
            cases = [(c, c, open(os.path.join(ctx.repo, c), "rb").read())]
        else:
            print("no recorded input: re-run ./check C17 to re-evaluate the theorem / relation")
            return 1
        p = check_files(ctx, V, impl, model, cases, False, "replay")[0]
        print("independent reader: %s %s" % (p["verdict"], p["why"]))
        print("real parser       : exit=%d sig=%d %s" % (p["real"]["exit"], p["real"]["sig"], p["real"]["err"][:300]))
        if p["m"] is not None and p["real_dump"] is not None:
            d = first_diff(p["m"]["dump"], p["real_dump"])
            print("first difference  : %s" % (d or "none"))
            return 1 if d else 0
        return 1
    f = case.get("file")
    if case.get("kind") in ("unlisted", "missing"):
        found, unlisted, missing = gen_specs.shipped(ctx.repo)
        bad = f in unlisted or f in missing
        print("%s: %s" % (f, "still not consistent with Makefile.am" if bad else "now consistent with Makefile.am"))
        return 1 if bad else 0
    if not f or not os.path.exists(os.path.join(ctx.repo, f)):
        print("file %s no longer exists" % f)
        return 0
    p = check_files(ctx, V, impl, model, [(f, f, open(os.path.join(ctx.repo, f), "rb").read())], True, "replay")[0]
    print("file %s" % f)
    print("real parser       : exit=%d sig=%d %s" % (p["real"]["exit"], p["real"]["sig"], p["real"]["err"][:300].strip()))
    print("independent reader: %s %s" % (p["verdict"], p["why"]))
    bad = 0
    if (p["real"]["exit"] != 0 or p["real"]["sig"] != 0) and p["xlog"]:
        lastq = [l for l in p["xlog"] if l.startswith("Q ")][-1:] or ["?"]
        print("VIOLATED: the file loads, but the real _process_action died executing request `%s` with faked device replies" % lastq[0])
        bad = 1
    elif p["real"]["exit"] != 0 or p["real"]["sig"] != 0:
        print("VIOLATED: the file does not load")
        return 1
    for origin, side in (("real parser's tree", p["r"]), ("independent reader's tree", p["m"])):
        for fl in (side or {}).get("fails", []):
            loc = locate(p["specs"], fl) if p["specs"] is not None else None
            print("VIOLATED (%s): %s:%s rule `%s` specification \"%s\" script %s statement %s  %s" % (
                origin, f, loc["line"] if loc else "?", fl["rule"], (loc or {}).get("spec"), (loc or {}).get("script") or fl["script"],
                ".".join(map(str, fl["path"])) or "-", (loc or {}).get("stmt") or ""))
            bad = 1
    tot = dict(files=0, specs=0, scripts=0, stmts=0, patterns=0, sends=0, hsprintf_calls=0, actions=0, sends_observed=0)
    check_ctx(ctx, V, p, tot)
    flush_ctx_violations(V)
    for v in V.violations:
        print("VIOLATED: " + v["detail"])
        bad = 1
    for b in V.broken:
        print("DISAGREEMENT %s: %s" % (b["name"], b["detail"]))
        bad = 1
    if not bad:
        print("all C17 rules hold of %s on the current tree; %d hsprintf calls observed" % (f, tot["hsprintf_calls"]))
    return bad
