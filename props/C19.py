"""C19 - redfishpower honours the plug hierarchy and always answers.

proof:   Properties/C19.v over Model/Redfish.v (one shell-loop pass = `pass`, a command = `run_line`) and
         Spec/RedfishSpec.v (the documented rules, top-down per target); Gen/GenRfp.v (gen/gen_rfp.py) carries the
         command / status words, every stdout format string and the F17/F20 repair flags of the CURRENT source.
         Proved (Proofs/Redfish*.v): ANY number of targets on a line at any depth = RedfishSpec.expected (lines as
         a multiset, status plug by plug) for every release schedule (C19_rules; + the single-target form and the
         property-text corollaries), ancestor+descendant `on` refusal, the error reports, F17 / F20 answers
         (see props/C19.json).
tie:     R-RFP   the real `redfishpower --test-mode` of the scratch copy (harness/rfp_drv.py, ASan+UBSan build,
         one process per session, one line at a time) vs the extracted model (driver/rfp_drv.ml), per command:
         multiset of stdout lines, prompt returned, process alive; the model is run under two release schedules
         of the delayed polls.  hostlist_create() on the arguments is an oracle evaluated by the real hostlist.c
         (harness/rfp_hl_h.c).
search:  the monitor is applied to the REAL helper's output: (M1) prompt back within the limit, process alive, at
         least one line per target and at most one result line per target, nothing about non-targets except the
         "path not set" diagnostics; (M2, sessions whose configuration the generator knows: parents defined, paths
         set) the multiset of lines equals the documented rules evaluated by an independent python reading
         (expect_rules below, from /root/proto/rfx/r.py) -- which also pins the status after every command, hence
         the off cascade; malformed ranges / bad indices / unknown plugs must be reported and survived.
         corpus first, then random sessions, then the small-scope sweep.
"""
import os, sys, re, json, glob, collections, itertools, threading, time
from concurrent.futures import ThreadPoolExecutor
import vlib
sys.path.insert(0, os.path.join(vlib.VERIF, "harness"))
import rfp_drv

HERE = vlib.VERIF
LIMIT = 4.0            # seconds the prompt may take (a command needs a few ms in test mode)
SITES = {1: "run_line.fuel", 2: "shell.lost_waiter", 3: "plugs.parent_cycle", 4: "send_initial_parent_queries.assert_root",
         5: "parse_onoff.test_status", 6: "scan.fuel", 7: "process_waiters.ancestor_data"}


def hx(s):
    return s.encode("latin-1").hex() if s else "-"


def unhx(h):
    return "" if h in ("-", "") else bytes.fromhex(h).decode("latin-1")


# ---------------------------------------------------------------------------------------------- the documented rules
class Forest:
    """what the generator knows about a session's configuration (independent of the model)"""
    def __init__(self):
        self.plugs, self.par, self.host = [], {}, {}

    def anc(self, p):                      # root first
        a, q, n = [], self.par.get(p), 0
        while q is not None and q in self.par and n < 64:
            a.append(q); q = self.par.get(q); n += 1
        return a[::-1]

    def isdesc(self, p, a):
        return a in self.anc(p)

    def copy(self):
        f = Forest()
        f.plugs, f.par, f.host = list(self.plugs), dict(self.par), dict(self.host)
        return f


def expect_rules(cmd, targets, fo, fail, st):
    """multiset of lines redfishpower(8) documents for `cmd targets`; updates st (plug -> on/off)"""
    out = collections.Counter()
    for t in targets:
        if t not in fo.par:
            out["unknown plug specified: %s" % t] += 1
    tg = [t for t in targets if t in fo.par]

    def qstat(p):
        return "error" if fo.host[p] in fail else st[p]
    if cmd == "on" and len(tg) > 1 and any(fo.isdesc(a, b) or fo.isdesc(b, a) for i, a in enumerate(tg) for b in tg[i + 1:]):
        for p in tg:
            out["%s: cannot turn on parent and child" % p] += 1
        return out
    for p in sorted(tg, key=lambda p: len(fo.anc(p))):
        blocked = None
        for a in fo.anc(p):
            s = qstat(a)
            if s != "on":
                blocked = (a, s)
                break
        if blocked:
            a, s = blocked
            if cmd == "stat":
                out["%s: %s" % (p, s)] += 1
            elif cmd == "off" and s == "off":
                out["%s: ok" % p] += 1
            else:
                out["%s: cannot perform %s, dependency %s (host=%s plug=%s)" % (p, cmd, s, fo.host[a], a)] += 1
            continue
        if fo.host[p] in fail:
            out["%s: error" % p] += 1
            continue
        if cmd == "stat":
            out["%s: %s" % (p, st[p])] += 1
        else:
            out["%s: ok" % p] += 1
            st[p] = cmd
            if cmd == "off":
                for q in fo.plugs:
                    if fo.isdesc(q, p):
                        st[q] = "off"
    return out


# ---------------------------------------------------------------------------------------------- generation
def render_targets(rng, names):
    """a hostlist expression whose expansion is exactly `names` (consecutive P<k> runs may become P[a-b])"""
    parts, i = [], 0
    while i < len(names):
        m = re.match(r"^([A-Za-z]+)(0|[1-9][0-9]*)$", names[i])
        j = i
        if m and rng.random() < 0.5:
            k = int(m.group(2))
            while j + 1 < len(names) and names[j + 1] == "%s%d" % (m.group(1), k + (j + 1 - i)):
                j += 1
        if j > i:
            parts.append("%s[%d-%d]" % (m.group(1), int(m.group(2)), int(m.group(2)) + j - i))
        else:
            parts.append(names[i])
        i = j + 1
    return ",".join(parts)


MALFORMED_ARGS = ["x[2-1]", "x[1", "x[", "L[3-1]", "[", "a[1-2", "q[5-3],R0", "R0,x[9-8]"]
NOOP_LINES = [  # (line, must print something?) -- none of these may change the configuration
    ("", False), ("   ", False), ("foo", True), ("status", True), ("help", True), ("auth", True), ("auth u:p", False),
    ("setheader X-Foo:1", False), ("settimeout 60", False), ("settimeout 0", True), ("settimeout 1x", True),
    ("setplugs", True), ("setplugs onlyone", True), ("setpath", True), ("setpath R0 stat", True),
    ("setpath R0 cycle p", True), ("setpath nosuchplug stat p", True), ("setpath x[2-1] stat p", True),
    ("setplugs zz[2-1] 0", True), ("setplugs zz [2-1]", True)]


def gen_forest(rng, deep=False):
    """1-4 roots, fan-out 0-3, up to 3 levels (4 when deep); names R<i> M<i> L<i> (K<i>) so that ranges can be used"""
    fo = Forest()
    cnt = collections.Counter()

    def new(prefix, parent):
        n = "%s%d" % (prefix, cnt[prefix]); cnt[prefix] += 1
        fo.plugs.append(n); fo.par[n] = parent
        return n
    levels = "RMLK"
    maxlev = 4 if deep else rng.choice([1, 2, 3, 3, 3])

    def grow(parent, lev):
        if lev >= maxlev:
            return
        for _ in range(rng.randrange(0, 4) if lev > 1 or rng.random() < 0.8 else 0):
            if len(fo.plugs) >= 14:
                return
            grow(new(levels[lev], parent), lev + 1)
    for _ in range(rng.randrange(1, 5)):
        grow(new("R", None), 1)
    return fo


SHAPES = ["deep-first", "chain", "cousins", "multi-root", "under-failing", "dups", "family"]


def shaped_targets(rng, fo, fail):
    """target lists along the case splits of the several-target proofs (Proofs/RedfishLive.v, RedfishStart.v):
    descendants BEFORE their ancestors, whole root-to-leaf chains, unrelated targets that share ancestors at different
    depths, one waiter per root (a root that is already active followed by a waiter below another, untargeted root),
    targets below a failing host, heavy duplicates, a plug with all its descendants.  Returns (targets, shape)."""
    plugs = fo.plugs
    depth = {p: len(fo.anc(p)) for p in plugs}
    desc = {p: [q for q in plugs if fo.isdesc(q, p)] for p in plugs}
    roots = [p for p in plugs if depth[p] == 0]
    shape = rng.choice(SHAPES)
    tg = []
    if shape == "deep-first":
        withanc = [p for p in plugs if depth[p] > 0]
        if withanc:
            p = rng.choice(withanc)
            tg = [p] + rng.sample(fo.anc(p), rng.randrange(1, depth[p] + 1)) + rng.sample(plugs, rng.randrange(0, min(4, len(plugs))))
            tg = sorted(dict.fromkeys(tg), key=lambda q: -depth[q])          # every descendant before its ancestors
    elif shape == "chain":
        p = max(plugs, key=lambda q: (depth[q], rng.random()))
        tg = [p] + list(reversed(fo.anc(p)))                                 # leaf, parent, ..., root
        if rng.random() < 0.5:
            rng.shuffle(tg)
    elif shape == "cousins":
        big = [r for r in roots if len(desc[r]) >= 2]
        if big:
            r = rng.choice(big)
            cand = list(desc[r]); rng.shuffle(cand)
            for q in cand:                                                   # unrelated, different depths when possible
                if not any(fo.isdesc(q, t) or fo.isdesc(t, q) for t in tg):
                    tg.append(q)
            tg = tg[:rng.randrange(2, 6)]
    elif shape == "multi-root":
        withd = [r for r in roots if desc[r]]
        if len(withd) >= 2:
            rng.shuffle(withd)
            first = withd[0]
            tg = [first] if rng.random() < 0.5 else [rng.choice(desc[first])]
            tg.append(rng.choice(desc[first]))                               # its root is already active now
            for r in withd[1:]:
                tg.append(rng.choice(desc[r]))                               # waiter below another, untargeted root
            if rng.random() < 0.3:
                tg.append(rng.choice(roots))
    elif shape == "under-failing":
        bad = [p for p in plugs if fo.host[p] in fail and desc[p]]
        if bad:
            a = rng.choice(bad)
            tg = rng.sample(desc[a], rng.randrange(1, min(4, len(desc[a])) + 1))
            if rng.random() < 0.4:
                tg.insert(rng.randrange(len(tg) + 1), a)
            tg += rng.sample(plugs, rng.randrange(0, 3))
    elif shape == "dups":
        base = rng.sample(plugs, rng.randrange(1, min(3, len(plugs)) + 1))
        tg = [p for p in base for _ in range(rng.randrange(2, 4))]
        rng.shuffle(tg)
    elif shape == "family":
        big = [p for p in plugs if desc[p]]
        if big:
            a = rng.choice(big)
            tg = desc[a] + [a]
            if rng.random() < 0.5:
                rng.shuffle(tg)
    if not tg:
        return None, None
    return tg, shape


def setplugs_lines(rng, fo, idx):
    """setplugs commands defining the forest; siblings with consecutive names and indices are grouped"""
    groups = collections.OrderedDict()
    for p in fo.plugs:
        groups.setdefault(fo.par[p], []).append(p)
    lines = []
    for parent, ps in groups.items():
        i = 0
        while i < len(ps):
            j = i
            if rng.random() < 0.6:
                while j + 1 < len(ps) and rng.random() < 0.8:
                    j += 1
            grp = ps[i:j + 1]
            same = len(set(idx[p] for p in grp)) == 1 and len(grp) > 1
            ia = str(idx[grp[0]]) if same and rng.random() < 0.7 else render_targets(rng, ["X%d" % idx[p] for p in grp]).replace("X", "")
            if "[" not in ia and "," in ia and rng.random() < 0.3:
                ia = "[%s]" % ia
            lines.append("setplugs %s %s%s" % (render_targets(rng, grp), ia, (" " + parent) if parent else ""))
            i = j + 1
    if rng.random() < 0.3:
        rng.shuffle(lines)          # children may be defined before their parents
    return lines


def gen_session(rng, sid, tier):
    fo = gen_forest(rng, deep=rng.random() < 0.1)
    n = len(fo.plugs)
    share = rng.random() < 0.35                      # several plugs per host
    nh = max(1, rng.randrange(1, max(2, n // 2 + 1))) if share else n
    nh_total = nh + rng.randrange(0, 3)
    hosts = ["h%d" % i for i in range(nh_total)]
    idx = {}
    for i, p in enumerate(fo.plugs):
        idx[p] = rng.randrange(nh) if share else i
        fo.host[p] = hosts[idx[p]]
    fail = [h for h in hosts if rng.random() < 0.15] if rng.random() < 0.75 else []
    s = dict(id=sid, kind="rules", hosts=hosts, hosts_arg="h[0-%d]" % (nh_total - 1) if nh_total > 1 else "h0",
             fail=fail, fail_arg=",".join(fail), verbose=rng.random() < 0.25, lines=[])

    def add(text, **kw):
        s["lines"].append(dict(text=text, **kw))
    # paths: defaults, per-plug with {{plug}} substitution, or a mixture (every plug ends up with all three)
    mode = rng.choice(["default", "plug", "mixed"])
    if mode in ("default", "mixed"):
        add("setstatpath redfish/v1/Systems/stat"); add("setonpath redfish/on {on}"); add("setoffpath redfish/off {off}")
    for l in setplugs_lines(rng, fo, idx):
        add(l)
    if mode in ("plug", "mixed"):
        ps = list(fo.plugs) if mode == "plug" else [p for p in fo.plugs if rng.random() < 0.5]
        for c in ("stat", "on", "off"):
            i = 0
            while i < len(ps):
                j = min(len(ps), i + rng.randrange(1, 4))
                add("setpath %s %s redfish/{{plug}}/%s%s" % (render_targets(rng, ps[i:j]), c, c, " {data}" if c != "stat" and rng.random() < 0.5 else ""))
                i = j
    st = {p: "off" for p in fo.plugs}
    defaults = mode in ("default", "mixed")
    if rng.random() < 0.6:
        # bring the tree up level by level (a parent and its child cannot be powered on by one command)
        for d in range(4):
            lv = [p for p in fo.plugs if len(fo.anc(p)) == d and rng.random() < 0.9]
            if lv:
                exp = expect_rules("on", lv, fo, set(fail), st)
                add("on " + render_targets(rng, lv), cmd="on", targets=lv, expect=dict(exp), setup=True)
    for _ in range(rng.randrange(6, 22 if tier == "quick" else 30)):
        r = rng.random()
        if r < 0.80:
            cmd = rng.choice(["stat", "on", "off", "on", "off", "stat"])
            r2 = rng.random()
            shape = None
            if r2 >= 0.40 and rng.random() < 0.5:
                tg, shape = shaped_targets(rng, fo, set(fail))
            if shape is not None:
                if rng.random() < 0.10:
                    tg.insert(rng.randrange(len(tg) + 1), rng.choice(["nosuch", "Z9", "R99"]))
                arg = ",".join(tg) if rng.random() < 0.7 else render_targets(rng, tg)
            elif r2 < 0.08:
                tg, arg = list(fo.plugs), None
            else:
                if r2 < 0.30 and n > 1:        # an ancestor together with one of its descendants
                    withanc = [p for p in fo.plugs if fo.anc(p)]
                    if withanc:
                        p = rng.choice(withanc)
                        tg = [p, rng.choice(fo.anc(p))] + rng.sample(fo.plugs, rng.randrange(0, min(3, n)))
                        rng.shuffle(tg)
                    else:
                        tg = rng.sample(fo.plugs, rng.randrange(1, min(5, n) + 1))
                elif r2 < 0.40:
                    tg = list(fo.plugs)
                    if rng.random() < 0.5:
                        rng.shuffle(tg)
                else:
                    tg = rng.sample(fo.plugs, rng.randrange(1, min(5, n) + 1))
                tg = list(dict.fromkeys(tg)) if rng.random() < 0.85 else tg + [rng.choice(tg)]   # sometimes a duplicate
                if rng.random() < 0.12:
                    tg.insert(rng.randrange(len(tg) + 1), rng.choice(["nosuch", "Z9", "R99", "h0"]))
                arg = render_targets(rng, tg)
            exp = expect_rules(cmd, tg, fo, set(fail), st)
            add(cmd + (" " + arg if arg is not None else ""), cmd=cmd, targets=tg, expect=dict(exp), noarg=arg is None, shape=shape)
            if cmd == "off" and rng.random() < 0.5:
                # cascade probe: the descendants of a plug that was just switched off are hidden behind it while it is
                # off; switch the parents on again and look at everybody (a missing cascade shows up as "on" below)
                par = [p for p in dict.fromkeys(tg) if p in fo.par and any(fo.isdesc(q, p) for q in fo.plugs)]
                lv = [p for p in par if not any(fo.isdesc(p, q) for q in par)]
                if lv:
                    exp = expect_rules("on", lv, fo, set(fail), st)
                    add("on " + render_targets(rng, lv), cmd="on", targets=lv, expect=dict(exp), probe=True)
                    exp = expect_rules("stat", list(fo.plugs), fo, set(fail), st)
                    add("stat", cmd="stat", targets=list(fo.plugs), expect=dict(exp), noarg=True, probe=True)
        elif r < 0.88:
            cmd = rng.choice(["stat", "on", "off"])
            add("%s %s" % (cmd, rng.choice(MALFORMED_ARGS)), malformed=True, report=True)
        elif r < 0.96 or not defaults:
            l, rep = rng.choice(NOOP_LINES)
            add(l, noop=True, report=rep)
            if rng.random() < 0.5:
                bad = rng.choice(["99", "-1", "1x", "0x1", "9223372036854775808", "2147483648"])
                add("setplugs Qbad %s" % bad, noop=True, report=True)
        else:
            # move a subtree (default paths exist, so the re-defined plug keeps working); statuses are kept
            p = rng.choice(fo.plugs)
            cands = [q for q in fo.plugs if q != p and not fo.isdesc(q, p) and len(fo.anc(q)) + 1 + max([len(fo.anc(d)) - len(fo.anc(p)) for d in fo.plugs if d == p or fo.isdesc(d, p)]) < 4]
            newpar = rng.choice(cands + [None]) if cands else None
            fo.par[p] = newpar
            add("setplugs %s %d%s" % (p, idx[p], (" " + newpar) if newpar else ""), reconf=True)
    return s


CHAOS_NAMES = ["a", "b", "c", "d", "e", "f", "g"]


def gen_chaos(rng, sid):
    """configuration commands in any order, paths possibly missing, parents possibly undefined, partial failures.
    Parents always have a smaller rank than their children, so no cycle can arise whatever succeeds."""
    nh = rng.randrange(1, 5)
    hosts = ["n%d" % i for i in range(nh)]
    fail = [h for h in hosts if rng.random() < 0.2]
    s = dict(id=sid, kind="chaos", hosts=hosts, hosts_arg=",".join(hosts), fail=fail, fail_arg=",".join(fail),
             verbose=rng.random() < 0.25, lines=[])

    def add(text, **kw):
        s["lines"].append(dict(text=text, **kw))
    idxs = [str(i) for i in range(nh)] + ["0", "0", "+0", "00", "99", "-1", "1x", "4294967296", "[0-%d]" % (nh - 1), "[1-0]", "0,0"]
    for _ in range(rng.randrange(8, 30)):
        r = rng.random()
        if r < 0.30:
            k = rng.randrange(1, 4)
            lo = rng.randrange(0, len(CHAOS_NAMES) - k + 1)
            ps = CHAOS_NAMES[lo:lo + k] if rng.random() < 0.7 else rng.sample(CHAOS_NAMES, k)
            rank = min(CHAOS_NAMES.index(p) for p in ps)
            par = rng.choice([None, None, "ghost"] + CHAOS_NAMES[:rank]) if rank > 0 else rng.choice([None, None, None, "ghost"])
            ia = rng.choice(idxs) if rng.random() < 0.6 else ",".join(rng.choice(idxs[:nh + 4]) for _ in ps)
            add("setplugs %s %s%s" % (",".join(ps), ia, (" " + par) if par else ""))
        elif r < 0.45:
            c = rng.choice(["stat", "on", "off"])
            ps = rng.sample(CHAOS_NAMES + hosts, rng.randrange(1, 3))
            add("setpath %s %s p/{{plug}}/%s" % (",".join(ps), c, c))
        elif r < 0.58:
            w = rng.choice(["setstatpath", "setonpath", "setoffpath"])
            add(w + (" path/%s" % w[3:] if rng.random() < 0.75 else ""))
        elif r < 0.62:
            add(rng.choice(NOOP_LINES)[0])
        else:
            cmd = rng.choice(["stat", "on", "off"])
            if rng.random() < 0.15:
                add(cmd, cmd=cmd, targets=None)
            elif rng.random() < 0.1:
                add("%s %s" % (cmd, rng.choice(MALFORMED_ARGS)), malformed=True, report=True)
            else:
                tg = rng.sample(CHAOS_NAMES + hosts + ["ghost"], rng.randrange(1, 5))
                add("%s %s" % (cmd, ",".join(tg)), cmd=cmd, targets=tg)
    return s


# ---------------------------------------------------------------------------------------------- small scope
def small_forests(maxn, maxlev=3):
    """all forests over plugs P0..P<n-1>, n <= maxn, parent index < own index, at most maxlev levels"""
    for n in range(1, maxn + 1):
        for pv in itertools.product(*[[None] + list(range(i)) for i in range(n)]):
            dep = []
            for i, p in enumerate(pv):
                dep.append(0 if p is None else dep[p] + 1)
            if max(dep) < maxlev:
                yield pv, dep


def gen_small(pv, dep, failplug, sid):
    """one helper: forest pv, plug `failplug` (or None) sits on the failing host while a command is under test.
    For every target subset x {stat,on,off} x {all off, all on}: restore the state, issue the command."""
    n = len(pv)
    names = ["P%d" % i for i in range(n)]
    fo = Forest()
    for i, p in enumerate(pv):
        fo.plugs.append(names[i]); fo.par[names[i]] = None if p is None else names[p]; fo.host[names[i]] = "h%d" % i
    hosts = ["h%d" % i for i in range(n)] + ["hF"]
    s = dict(id=sid, kind="small", hosts=hosts, hosts_arg=",".join(hosts), fail=["hF"], fail_arg="hF", verbose=False, lines=[])

    def add(text, **kw):
        s["lines"].append(dict(text=text, **kw))
    add("setstatpath s"); add("setonpath o d"); add("setoffpath f d")
    for i in range(n):
        add("setplugs %s %d%s" % (names[i], i, (" " + fo.par[names[i]]) if fo.par[names[i]] else ""))
    st = {p: "off" for p in names}
    fail = {"hF"}
    levels = [[names[i] for i in range(n) if dep[i] == d] for d in range(max(dep) + 1)]
    roots = levels[0]

    def move(i, bad):
        fo.host[names[i]] = "hF" if bad else "h%d" % i
        add("setplugs %s %d%s" % (names[i], n if bad else i, (" " + fo.par[names[i]]) if fo.par[names[i]] else ""), reconf=True)
    for allon in (False, True):
        for k in range(1, 2 ** n):
            tg = [names[i] for i in range(n) if k >> i & 1]
            for cmd in ("stat", "on", "off"):
                # restore: all off / all on
                want = "on" if allon else "off"
                if any(st[p] != want for p in names):
                    if allon:
                        for lv in levels:
                            need = [p for p in lv if st[p] != "on"]
                            if need:
                                exp = expect_rules("on", need, fo, fail, st)
                                add("on " + ",".join(need), cmd="on", targets=need, expect=dict(exp), setup=True)
                    else:
                        exp = expect_rules("off", roots, fo, fail, st)
                        add("off " + ",".join(roots), cmd="off", targets=list(roots), expect=dict(exp), setup=True)
                if failplug is not None:
                    move(failplug, True)
                exp = expect_rules(cmd, tg, fo, fail, st)
                add("%s %s" % (cmd, ",".join(tg)), cmd=cmd, targets=tg, expect=dict(exp))
                if failplug is not None:
                    move(failplug, False)
                # the status afterwards is part of the rules (off cascade)
                exp = expect_rules("stat", names, fo, fail, st)
                add("stat", cmd="stat", targets=list(names), expect=dict(exp), noarg=True, setup=True)
                if cmd == "off" and allon and failplug is None:
                    # cascade probe: descendants are hidden behind an off parent; switch the topmost targets on again
                    lv = [p for p in tg if not any(fo.isdesc(p, q) for q in tg)]
                    exp = expect_rules("on", lv, fo, fail, st)
                    add("on " + ",".join(lv), cmd="on", targets=lv, expect=dict(exp), probe=True)
                    exp = expect_rules("stat", names, fo, fail, st)
                    add("stat", cmd="stat", targets=list(names), expect=dict(exp), noarg=True, probe=True)
    return s


# ---------------------------------------------------------------------------------------------- running
def session_args(s):
    a = set()
    for l in s["lines"]:
        w = l["text"].split()
        a.update(w[1:3])
    return a


def run_oracle(ctx, exe, args):
    args = sorted(args)
    rc, o, e = vlib.sh(["timeout", "-s", "KILL", "120", exe], inp=("".join(hx(a) + "\n" for a in args)).encode(), shell=False, timeout=130)
    rows = o.split("\n")
    if rc != 0 or len(rows) < len(args):
        raise vlib.TieBroken("hostlist oracle failed: rc=%s %s" % (rc, e[-1500:]))
    tab = {}
    for a, r in zip(args, rows):
        w = r.split()
        tab[a] = None if w[0] in ("BAD", "FATAL") else [unhx(x) for x in w[1:]]
        if w[0] == "FATAL":
            tab[a + "\0fatal"] = True
    return tab


def run_real(exe, s, errdir, stop=None):
    """-> list of per-line results dict(out=str|None, dead=None|'hang'|'exit:N', partial, stderr)"""
    res = []
    h = rfp_drv.Helper(exe, s["hosts_arg"], s["fail_arg"] or None, s["verbose"], errdir=errdir)
    try:
        if h.first is None:
            return [dict(out=None, dead=h.dead or "exit:?", partial=h.partial(), stderr=h.stderr_text(), startup=True)]
        for l in s["lines"]:
            if stop is not None and stop.is_set():
                break
            if l["text"].split()[:1] == ["quit"]:
                rc = h.quit()
                res.append(dict(out="" if rc == 0 else None, dead=None if rc == 0 else (h.dead or "hang"), quit=True, stderr=h.stderr_text() if rc != 0 else ""))
                break
            t = time.time()
            o = h.cmd(l["text"], LIMIT)
            if o is None:
                res.append(dict(out=None, dead=h.dead, partial=h.partial(), stderr=h.stderr_text(), dt=time.time() - t))
                break
            res.append(dict(out=o, dead=None, dt=time.time() - t))
        else:
            rc = h.quit()
            if rc != 0:
                res.append(dict(out=None, dead=h.dead or "hang", quit=True, stderr=h.stderr_text(), final_quit=True))
    finally:
        h.close()
    return res


def model_input(sessions, hltab, scheds):
    L = []
    for a, v in hltab.items():
        if "\0" in a:
            continue
        L.append("HL %s %s" % (hx(a), "BAD" if v is None else "OK " + " ".join(hx(x) for x in v)))
    for s in sessions:
        hs = hltab.get(s["hosts_arg"]) or []
        fs = hltab.get(s["fail_arg"]) or [] if s["fail_arg"] else []
        for tag in scheds:
            L.append("INIT %s.%s %d H %s F %s" % (s["id"], tag, 1 if s["verbose"] else 0, " ".join(hx(x) for x in hs), " ".join(hx(x) for x in fs)))
        for i, l in enumerate(s["lines"]):
            for tag in scheds:
                L.append("CMD %s.%s %s %s" % (s["id"], tag, hx(l["text"]), scheds[tag](s, i)))
    return "\n".join(L) + "\n"


def run_model(exe, sessions, hltab, scheds):
    """-> {(sid, tag): [dict(oc, out, spec, st, sst, ops)]}"""
    inp = model_input(sessions, hltab, scheds)
    rc, o, e = vlib.sh(["timeout", "-s", "KILL", "900", exe], inp=inp.encode(), shell=False, timeout=930)
    if rc != 0:
        raise vlib.TieBroken("model driver failed: rc=%s %s" % (rc, e[-2000:]))
    rows = [r for r in o.split("\n") if r.startswith("R ")]
    res, k = {}, 0
    for s in sessions:
        for i, l in enumerate(s["lines"]):
            for tag in scheds:
                w = rows[k].split(); k += 1
                res.setdefault((s["id"], tag), []).append(dict(
                    oc=w[1], out=None if w[1] not in ("OK", "QUIT") else unhx(w[2]),
                    spec=None if w[3] == "none" else unhx(w[3]), st=w[4], sst=None if w[5] == "none" else w[5], ops=w[6] if len(w) > 6 else "-"))
    return res


def lines_of(text):
    return collections.Counter(l for l in text.split("\n") if l != "")


def strip_debug(c):
    return collections.Counter({k: v for k, v in c.items() if not k.startswith("DEBUG: ")})


def monitor(s, i, l, r, hltab):
    """the property on the REAL helper's behaviour for line i.  -> None | (clause, site, detail)"""
    if r["out"] is None:
        if r.get("startup"):
            return ("C19_survives", "startup", "helper did not reach its first prompt: %s %s" % (r["dead"], r.get("stderr", "")[-600:]))
        if r["dead"] == "hang":
            return ("C19_terminates", "prompt_timeout", "no prompt within %.0f s after %r; output so far %r" % (LIMIT, l["text"], r.get("partial", "")))
        return ("C19_survives", "died", "helper terminated (%s) on %r; stderr: %s" % (r["dead"], l["text"], r.get("stderr", "")[-800:]))
    got = strip_debug(lines_of(r["out"]))
    w = l["text"].split()
    if l.get("report") and not got:
        return ("C19_survives", "no_report", "%r printed nothing" % l["text"])
    if not w or w[0] not in ("stat", "on", "off"):
        return None
    if len(w) > 1:
        tg = hltab.get(w[1])
        if tg is None:
            if got != collections.Counter(["illegal hosts input"]):
                return ("C19_survives", "malformed_range", "%r answered %r" % (l["text"], sorted(got.elements())))
            return None
    else:
        tg = None            # all plugs: the generic clause needs the table, M2 covers it when the forest is known
    if l.get("expect") is not None:
        exp = collections.Counter(l["expect"])
        if got != exp:
            return ("C19_rules", "rules." + w[0], "%r: got-only %r, expected-only %r" % (l["text"], sorted((got - exp).elements()), sorted((exp - got).elements())))
        return None
    if tg is not None:
        tc = collections.Counter(tg)
        for t, k in tc.items():
            mine = [x for x in got.elements() if x.startswith(t + ": ") or x == "unknown plug specified: " + t]
            results = [x for x in mine if not x.endswith(" path not set")]
            if len(mine) < k or len(results) > k:
                return ("C19_one_line_each", "target_lines", "%r: target %s (x%d) got %r" % (l["text"], t, k, mine))
        for x in got.elements():
            m = re.match(r"^(?:unknown plug specified: |plug not mapped: )?([^:]*)", x)
            if m.group(1) not in tc and not x.endswith(" path not set"):
                return ("C19_one_line_each", "foreign_line", "%r printed %r" % (l["text"], x))
    return None


def model_site(oc):
    m = re.match(r"^(HANG|ABORT|EXIT|MEM):(\d+)$", oc or "")
    if not m:
        return None
    return "%s@%s" % ({"HANG": "Hang", "ABORT": "Abort", "EXIT": "Exit", "MEM": "MemErr"}[m.group(1)], SITES.get(int(m.group(2)), m.group(2)))


def judge(s, real, models, hltab):
    """-> (violation | None, mismatch | None, index)   first problem of the session"""
    for i, l in enumerate(s["lines"]):
        if i >= len(real):
            break
        r = real[i]
        v = monitor(s, i, l, r, hltab)
        mm = None
        for tag, ms in models.items():
            m = ms[i]
            if r["out"] is None:
                same = (r["dead"] == "hang" and m["oc"].startswith("HANG")) or (str(r["dead"]).startswith("exit:") and re.match(r"ABORT|EXIT|MEM", m["oc"]) is not None)
                if not same:
                    mm = ("model[%s] says %s, helper: %s" % (tag, m["oc"], r["dead"]))
            elif m["out"] is None:
                mm = "model[%s] says %s, helper answered %r" % (tag, m["oc"], r["out"])
            elif lines_of(m["out"]) != lines_of(r["out"]):
                a, b = lines_of(r["out"]), lines_of(m["out"])
                mm = "line %r: helper-only %r, model[%s]-only %r" % (l["text"], sorted((a - b).elements()), tag, sorted((b - a).elements()))
            if mm is None and m["spec"] is not None and l.get("expect") is not None and lines_of(m["spec"]) != collections.Counter(l["expect"]):
                mm = "line %r: extracted RedfishSpec.expected %r differs from the python rules %r" % (l["text"], sorted(lines_of(m["spec"]).elements()), sorted(collections.Counter(l["expect"]).elements()))
            if mm is None and m["spec"] is not None and m["sst"] is not None and m["st"] != m["sst"]:
                mm = "line %r: status after the command: model %s, RedfishSpec %s" % (l["text"], m["st"], m["sst"])
            if mm:
                break
        if v is not None and r["out"] is None:
            site = model_site(models[next(iter(models))][i]["oc"])
            if site:
                v = (v[0], site, v[2])
        if v or mm:
            return v, mm, i
    # the session ended with `quit`: status 0 expected
    if real and real[-1].get("final_quit"):
        return ("C19_survives", "quit", "quit did not end the helper with status 0: %s %s" % (real[-1]["dead"], real[-1].get("stderr", "")[-500:])), None, len(s["lines"]) - 1
    return None, None, -1


def witness(s, upto):
    return dict(hosts_arg=s["hosts_arg"], fail_arg=s["fail_arg"], verbose=s["verbose"], kind=s["kind"],
                lines=[dict(l) for l in s["lines"][:upto + 1]])


class Runner:
    def __init__(self, ctx, V):
        self.ctx, self.V = ctx, V
        self.errdir = os.path.join(ctx.scratch, "err")
        os.makedirs(self.errdir, exist_ok=True)
        self.stop = threading.Event()

    def build(self):
        ctx = self.ctx
        with ThreadPoolExecutor(3) as ex:
            f1 = ex.submit(rfp_drv.build, ctx)
            f2 = ex.submit(ctx.cc, [HERE + "/harness/rfp_hl_h.c", ctx.repo + "/src/liblsd/hostlist.c"], "rfp_hl")
            f3 = ex.submit(ctx.ocaml_driver, "rfp_model", "rfpmodel", "rfp_drv.ml")
            self.helper, self.oracle, self.model = f1.result(), f2.result(), f3.result()

    SCHEDS = {"all": lambda s, i: "-",
              "slow": lambda s, i: ",".join(str((i * 7 + k * 3 + len(s["lines"])) % 3) for k in range(40))}

    def run_batch(self, sessions, scheds=None):
        """-> list of (session, real, models, violation, mismatch, index)"""
        scheds = scheds or self.SCHEDS
        args = set()
        for s in sessions:
            args |= session_args(s) | {s["hosts_arg"]} | ({s["fail_arg"]} if s["fail_arg"] else set())
        hltab = run_oracle(self.ctx, self.oracle, args)
        with ThreadPoolExecutor(16) as ex:
            fm = ex.submit(run_model, self.model, sessions, hltab, scheds)
            reals = list(ex.map(lambda s: run_real(self.helper, s, self.errdir, self.stop), sessions))
            mres = fm.result()
        out = []
        for s, real in zip(sessions, reals):
            models = {tag: mres[(s["id"], tag)] for tag in scheds}
            v, mm, i = judge(s, real, models, hltab)
            out.append((s, real, models, v, mm, i))
        self.hltab = hltab
        return out

    def shrink(self, s, clause, idx, budget=40):
        """drop lines before the failing one while the same clause still fails, at the last line, on the real helper.
        For C19_rules only lines that leave the state alone may go (the recorded expectation depends on it); for the
        other clauses the recorded expectations of the earlier lines are dropped (they are then checked by M1 only)."""
        cur = dict(s, lines=[dict(l) for l in s["lines"][:idx + 1]])
        if clause != "C19_rules":
            for l in cur["lines"][:-1]:
                l.pop("expect", None)
        k = len(cur["lines"]) - 2
        while k >= 0 and budget > 0:
            l = cur["lines"][k]
            if clause != "C19_rules" or l.get("noop") or l.get("malformed") or l.get("cmd") == "stat":
                cand = dict(cur, id=cur["id"] + "s", lines=cur["lines"][:k] + cur["lines"][k + 1:])
                budget -= 1
                try:
                    (_, real, models, v, mm, i), = self.run_batch([cand], scheds={"all": self.SCHEDS["all"]})
                except vlib.TieBroken:
                    break
                if v is not None and v[0] == clause and i == len(cand["lines"]) - 1:
                    cur = cand
            k -= 1
        return cur


def load_corpus():
    out = []
    for f in sorted(glob.glob(os.path.join(HERE, "corpus", "C19", "*.json"))):
        d = json.load(open(f))
        d["id"] = "corpus." + os.path.basename(f)[:-5]
        d.setdefault("kind", "corpus")
        d.setdefault("verbose", False)
        d.setdefault("fail_arg", "")
        d["lines"] = [dict(text=l) if isinstance(l, str) else l for l in d["lines"]]
        out.append(d)
    return out


def account(V, s, real, models):
    for i, l in enumerate(s["lines"][:len(real)]):
        w = l["text"].split()
        kind = w[0] if w and w[0] in ("stat", "on", "off", "setplugs", "setpath") else ("empty" if not w else "other")
        if l.get("malformed"):
            kind = "malformed-range"
        V.count("line:" + kind)
        if l.get("shape"):
            V.count("targets:" + l["shape"])
        if kind in ("stat", "on", "off") and l.get("targets") and len(l["targets"]) > 1:
            V.count("line:several-targets")
        m = models[next(iter(models))][i]
        nontrivial = kind in ("stat", "on", "off") and (real[i]["out"] or "").count("\n") > 0
        V.case((s["hosts_arg"], s["fail_arg"], [x["text"] for x in s["lines"][:i + 1]][-6:], i), nontrivial=nontrivial)
        if real[i].get("out"):
            for x in lines_of(real[i]["out"]):
                if "dependency" in x:
                    V.count("answer:dependency")
                elif x.endswith(": ok"):
                    V.count("answer:ok")
                    if l.get("cmd") in ("on", "off") and s["kind"] == "rules" and not x.startswith("R"):
                        V.count("answer:ok-below-root")
                elif "parent and child" in x:
                    V.count("answer:phased-refusal")
                elif x.endswith(": error"):
                    V.count("answer:error")
                elif x.endswith(": on") and s["kind"] == "rules" and not x.startswith("R"):
                    V.count("answer:on-below-root")
                elif "unknown plug" in x:
                    V.count("answer:unknown-plug")
                elif "path not set" in x:
                    V.count("answer:path-not-set")
                elif "ancestor plug not defined" in x:
                    V.count("answer:dangling-parent")
        if m["ops"] not in ("-", None):
            V.count("model:ops-carried-out", len(m["ops"].split(",")))


def run(ctx, V):
    proofs_ok = vlib.proof_gate(ctx, V)
    ok, log, failing = ctx.coq_make(["Extract/ExRedfish.vo"])     # re-extract: the model must reflect the regenerated GenRfp.v
    if not ok:
        raise vlib.TieBroken("extraction of the model does not build: " + log[-1500:])
    R = Runner(ctx, V)
    R.build()
    quick = ctx.tier == "quick"
    V.rule = ("sessions against the real `redfishpower --test-mode` (ASan/UBSan build of the scratch copy), one line at a time: "
              "(rules) random forests of 1-4 roots, fan-out 0-3, 1-3 levels (10%: 4), <= 14 plugs, one host per plug or several plugs per host, "
              "default / per-plug {{plug}} / mixed paths, 15% failing hosts, 25% with -vv, 6-21 lines: 80% stat/on/off over random target "
              "subsets (22%: an ancestor with a descendant, 15%: duplicates, 12%: unknown names, ranges P[a-b]; 30% of the lines follow the case splits "
              "of the several-target proofs: descendants before their ancestors, whole root-to-leaf chains, unrelated targets sharing ancestors at "
              "different depths, one waiter per root after an already active root, targets below a failing host, repeated names, a plug with all "
              "its descendants), 8% malformed ranges, no-op / "
              "erroneous management lines, subtree moves; (chaos) setplugs/setpath/set*path in any order with bad indices, partial failures, "
              "missing paths, undefined parents (parents have a smaller rank: no cycles); (small) every forest up to N plugs and 3 levels x "
              "every target subset x stat/on/off x all-off/all-on x each single plug on a failing host.  A line counts as non-trivial when it "
              "is a stat/on/off that printed at least one line.")
    n_rules, n_chaos, small_n = (260, 120, 3) if quick else (5000, 2500, 5)
    sessions = load_corpus()
    ncorpus = len(sessions)
    for k in range(n_rules):
        sessions.append(gen_session(ctx.rng, "r%d" % k, ctx.tier))
    for k in range(n_chaos):
        sessions.append(gen_chaos(ctx.rng, "c%d" % k))
    k = 0
    for pv, dep in small_forests(small_n):
        for fp in [None] + list(range(len(pv))):
            sessions.append(gen_small(pv, dep, fp, "s%d" % k)); k += 1
    V.extra["sessions"] = dict(corpus=ncorpus, rules=n_rules, chaos=n_chaos, small=k, small_scope_plugs=small_n)
    V.exhaustive = False
    t0 = time.time()
    nviol = nmis = 0
    CH = 400
    for b in range(0, len(sessions), CH):
        res = R.run_batch(sessions[b:b + CH])
        for s, real, models, v, mm, i in res:
            account(V, s, real, models)
            if v is not None:
                nviol += 1
                if nviol <= 6:
                    sh = R.shrink(s, v[0], i) if s["kind"] != "small" else dict(s, lines=s["lines"][:i + 1])
                    V.violation(v[0], v[1], witness(sh, len(sh["lines"]) - 1), v[2])
                else:
                    V.count("violations-not-shrunk")
            elif mm is not None:
                nmis += 1
                if nmis <= 5:
                    V.tie_broken("correspondence", "R-RFP", mm, case=witness(s, i))
            if len(V.samples) < 4 and s["kind"] == "rules" and len(real) == len(s["lines"]):
                j = next((j for j, l in enumerate(s["lines"]) if l.get("cmd") and "dependency" in (real[j]["out"] or "")), None)
                if j is not None:
                    V.sample(dict(hosts=s["hosts_arg"], failing=s["fail_arg"], lines=[l["text"] for l in s["lines"][:j + 1]], answer=real[j]["out"]))
        if nviol > 12:
            ctx.log("many violations, stopping the search early")
            break
    dt = time.time() - t0
    V.extra["lines_per_second"] = round(V.evaluations / max(dt, 1e-3), 1)
    V.assumptions += [
        "C19 scope: test mode only (real curl traffic is outside the property); hostlist_create()/hostlist_find() are taken from the real hostlist.c "
        "as an oracle (C14's subject), plug names are plain words (no F11-sized numeric suffixes); input lines shorter than fgets' 255 bytes; "
        "plug tables with a parent cycle are outside the property (\"acyclic\") and never generated; the 60 s command time-out of a status poll is not modelled "
        "(unreachable in test mode: the status is flipped before the poll)"]
    ctx.log("C19: %d lines in %.1fs, violations=%d mismatches=%d" % (V.evaluations, dt, nviol, nmis))


def replay(ctx, V, path):
    d = json.load(open(path))
    case = d.get("case") or (d.get("no_longer_checks") or [{}])[0].get("case")
    if not case:
        print("replay file has no case"); return 2
    ctx.copy_repo(); ctx.copy_coq()
    try:
        ctx.regen()
    except vlib.TieBroken as ex:
        print("translator: %s" % ex)
    ctx.coq_make(["Extract/ExRedfish.vo"])
    R = Runner(ctx, V)
    R.build()
    s = dict(case, id="replay")
    s["lines"] = [dict(text=l) if isinstance(l, str) else l for l in s["lines"]]
    (_, real, models, v, mm, i), = R.run_batch([s])
    for j, l in enumerate(s["lines"]):
        print("> %s" % l["text"])
        if j < len(real):
            r = real[j]
            print("  helper: %s" % (repr(r["out"]) if r["out"] is not None else "NO PROMPT (%s) partial=%r stderr=%s" % (r["dead"], r.get("partial"), r.get("stderr", "")[-400:])))
        for tag, ms in models.items():
            print("  model[%s]: %s %r" % (tag, ms[j]["oc"], ms[j]["out"]))
        if l.get("expect") is not None:
            print("  rules : %r" % sorted(collections.Counter(l["expect"]).elements()))
    if v:
        print("MONITOR: clause %s violated at line %d (%s): %s" % (v[0], i, v[1], v[2]))
    if mm:
        print("CORRESPONDENCE: %s" % mm)
    if not v and not mm:
        print("MONITOR: ok; model and helper agree")
    return 1 if (v or mm) else 0
