"""C12 - failures are contained, reported and recovered from (DESIGN §5 C12), device layer: see props/C07.py"""
import json, C07
def recovery_stage(ctx, V, exe, n):
    """`the daemon disconnects, reconnects and logs in again; actions still pending when the connection comes back are executed again from
    their first statement; once the device behaves, new requests succeed`: a tcp device that drops the connection ONCE, in the middle of a
    telnet sequence (IAC / IAC DO..WONT as its last bytes) or after a few bytes no script expects (a goodbye banner, a trailing prompt: they
    stay unconsumed in the daemon's buffer), right after it received a command, and is healthy from the next connection on.
    The request must be re-sent on the new connection and succeed, and so must the next one (nothing of the dead connection - buffered
    bytes, telnet parser position, script position - may survive into the new session)."""
    import random, pmgen, pmcheck
    scs = []
    for i in range(n):
        rng = random.Random(ctx.seed * 7919 + i)
        cfg = pmgen.Config()
        d0 = pmgen.Dev("d0", ["login", "on", "off", "status"], hardwired=["p1", "p2"], transport="tcp", timeout=rng.choice([4.0, 6.0]))
        cfg.devs.append(d0); cfg.node_lines.append(("n0,n1", "d0", "p1,p2")); cfg.truth = {"d0": {"p1": "n0", "p2": "n1"}}
        first = rng.choice([b"on n0\r\n", b"off n1\r\n", b"on n[0-1]\r\n", b"status n0\r\n"])
        S = [("connect",), ("wait", 0), ("devmode", "d0", "iacclose" if i % 2 == 0 else "junkclose"), ("send", 0, first), ("wait", 0), ("send", 0, b"status n[0-1]\r\n"), ("wait", 0)]
        scs.append(pmcheck.Scenario(cfg, S, dict(style="c12-recovery", first=first.decode().strip())))

    def mon_recovery(sess, sc):
        bad = []
        if not sess.alive_after_script or sess.wedged or sess.overrun:
            return bad
        reps = [r for r in (pmcheck.split_replies(sess.client_out.get(0, b"")) or []) if isinstance(r[0], int)]
        codes = [r[0] for r in reps]
        log = sess.devs["d0"].log
        verb = sc.tags["first"].split()[0].upper()
        dropped = [l for l in log if l[3] == "iacclose"]
        again = [l for l in log if l[1].startswith(verb) and l[3] == "answered" and dropped and l[0] != dropped[0][0]]
        if dropped and not again:
            bad.append(("recovery", "not-rerun", "the device dropped the connection after receiving %s and was healthy from the next connection on, but the command never arrived again: device log %s | client %r" % (verb, log[:8], sess.client_out.get(0, b"")[-300:])))
        if dropped and (len(codes) < 2 or not all(100 <= c < 200 for c in codes[:2])):
            bad.append(("recovery", "request-failed", "the device dropped ONE connection (in the middle of a telnet sequence) and behaved afterwards; replies %s, expected the pending request re-run with success and the next request successful: %r" % (codes, sess.client_out.get(0, b"")[-400:])))
        return bad
    pmcheck.MONITORS["c12recovery"] = mon_recovery
    pmcheck.run_batch(ctx, V, exe, scs, ["alive", "wedge", "c12recovery"], "c12rec")
    V.count("recovery-histories", len(scs))


def run(ctx, V):
    exe = _run(ctx, V)
    recovery_stage(ctx, V, exe, 12 if ctx.tier == "quick" else 200)


def _run(ctx, V):
    return C07.run_devlayer(ctx, V, ("timeout", "backoff", "timer", "count", "fifo", "login"), 260, 6000, ["alive", "c12", "c10", "protocol", "wedge"], ("faults",), 300,
                     "C12: a head past its deadline takes every queued client action with it (one failure completion each, none left queued); per pass at most one "
                     "connect attempt, only when retry_count = 0 or backoff(retry_count) elapsed (exact check against the previous pass's dump unless a request came in between).")
def replay(ctx, V, path):
    print(json.dumps(json.load(open(path)), indent=1)[:6000]); return 0
