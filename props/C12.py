"""C12 - failures are contained, reported and recovered from (DESIGN §5 C12), device layer: see props/C07.py"""
import json, C07
def run(ctx, V):
    C07.run_devlayer(ctx, V, ("timeout", "backoff", "timer", "count", "fifo", "login"), 260, 6000, ["alive", "c12", "c10", "protocol", "wedge"], ("faults",), 300,
                     "C12: a head past its deadline takes every queued client action with it (one failure completion each, none left queued); per pass at most one "
                     "connect attempt, only when retry_count = 0 or backoff(retry_count) elapsed (exact check against the previous pass's dump unless a request came in between).")
def replay(ctx, V, path):
    print(json.dumps(json.load(open(path)), indent=1)[:6000]); return 0
