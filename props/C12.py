"""C12 - failures are contained, reported and recovered from (DESIGN §5 C12)"""
import json, vlib, pmcheck
def run(ctx, V):
    pmcheck.standard_run(ctx, V, ["alive", "c12", "c10", "protocol", "wedge"], styles=("faults",), n_quick=600)
def replay(ctx, V, path):
    print(json.dumps(json.load(open(path)), indent=1)[:6000]); return 0
