"""C02 - success is reported only when every target was really handled (DESIGN §5 C02)"""
import json, vlib, pmcheck
def run(ctx, V):
    import C06
    pmcheck.standard_run(ctx, V, ["alive", "c02", "protocol", "wedge"], extract=["Extract/ExClient.vo", "Extract/ExEnqueue.vo"], n_quick=500, n_thorough=8000)
    # the reply folding (_act_finish, reply_power, 308/309 lines) and the pre-check (dev_check_actions) are tied exactly by R-CLIENT
    C06.correspond(ctx, V, n=300 if ctx.tier == "quick" else 4000)
def replay(ctx, V, path):
    import C06
    return C06.replay(ctx, V, path)
