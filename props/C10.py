"""C10 - one conversation at a time per device, and login comes first (DESIGN §5 C10), device layer: see props/C07.py"""
import json, C07
def run(ctx, V):
    C07.run_devlayer(ctx, V, ("login", "fifo", "count", "fd", "live"), 260, 6000, ["alive", "c10", "wedge"], ("mixed", "faults"), 300,
                     "C10: per device the queue of client ids only loses a prefix (completed in that order) and gains a suffix; connected-and-not-logged-in <=> login is the head; telemetry / diagnostic callbacks only for clients completed later in the same pass or still queued (C10_callbacks_live).")
def replay(ctx, V, path):
    print(json.dumps(json.load(open(path)), indent=1)[:6000]); return 0
