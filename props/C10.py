"""C10 - one conversation at a time per device, and login comes first (DESIGN §5 C10), device layer: see props/C07.py"""
import json, C07
def relogin_stage(ctx, V, exe, n):
    """`login comes first` on EVERY connection: a tcp device answers a command, adds what looks like its login prompt and hangs up (the surplus
    stays in the daemon's buffer); the next connection shows its prompt a few rounds late.  Nothing of the old connection may count as the
    new connection's prompt: no command line may reach the device before the new connection has prompted (device-side clause
    one-conversation / interleave of mon_c10), and the requests succeed."""
    import random, pmgen, pmcheck
    scs = []
    for i in range(n):
        rng = random.Random(ctx.seed * 334214459 + i)
        cfg = pmgen.Config()
        d0 = pmgen.Dev("d0", ["login", "on", "off", "status"], hardwired=["p1", "p2"], transport="tcp", timeout=rng.choice([4.0, 6.0]))
        cfg.devs.append(d0); cfg.node_lines.append(("n0,n1", "d0", "p1,p2")); cfg.truth = {"d0": {"p1": "n0", "p2": "n1"}}
        S = [("connect",), ("wait", 0), ("devmode", "d0", "readyclose")]
        for r in [rng.choice(["on n0", "off n1", "status n0"]), rng.choice(["on n1", "off n0", "status n[0-1]"]), "status"]:
            S += [("send", 0, (r + "\r\n").encode()), ("wait", 0)]
        scs.append(pmcheck.Scenario(cfg, S, dict(style="c10-relogin", ncli=1)))
    pmcheck.run_batch(ctx, V, exe, scs, ["alive", "wedge", "c10", "protocol"], "c10r")
    V.count("relogin-histories", len(scs))


def run(ctx, V):
    exe = _run(ctx, V)
    relogin_stage(ctx, V, exe, 12 if ctx.tier == "quick" else 200)


def _run(ctx, V):
    return C07.run_devlayer(ctx, V, ("login", "fifo", "count", "fd", "live"), 260, 6000, ["alive", "c10", "wedge"], ("mixed", "faults"), 300,
                     "C10: per device the queue of client ids only loses a prefix (completed in that order) and gains a suffix; connected-and-not-logged-in <=> login is the head; telemetry / diagnostic callbacks only for clients completed later in the same pass or still queued (C10_callbacks_live).")
def replay(ctx, V, path):
    print(json.dumps(json.load(open(path)), indent=1)[:6000]); return 0
