"""C10 - one conversation at a time per device, and login comes first (DESIGN §5 C10)"""
import json, vlib, pmcheck
def run(ctx, V):
    pmcheck.standard_run(ctx, V, ["alive", "c10", "wedge"], styles=("mixed", "faults"), n_quick=600)
def replay(ctx, V, path):
    print(json.dumps(json.load(open(path)), indent=1)[:6000]); return 0
