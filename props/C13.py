"""C13 -- accepted configurations define an unambiguous node-to-plug map (DESIGN §5 C13).

Theorems: coq/Properties/C13.v over Model/Lexer.v (make_node / make_device / make_alias / validate inside the
recursive-descent load shared with C18) against Spec/ConfSpec.v (map_of, zip / next-free / same-name rules).
Tie, re-established on every run:
  * gen/gen_lex.py (the facts of C18's translator; the C13 cone imports Gen/GenLex.v);
  * R-CONF: harness/lex_h.c `dump` mode runs the REAL conf_init (flex/bison parser regenerated from the scratch copy,
    pluglist.c and parse_util.c #included so that the `hardwired` flag and the alias list can be read) and dumps, per
    device of dev_getdevices() in list order, every plug (name, node or none), conf_getnodes() in iteration order, the
    aliases, and what `device` / `nodes` would list (hostlist_ranged_string of the sorted lists); the extracted model
    (driver/lex_drv.ml `dump`) prints its cfg in the same format: accepted/refused class (+ file::line) and the whole
    dump must be IDENTICAL.
Monitor = the property evaluated on the implementation's own dump, against an expectation computed independently in
python from the STRUCTURE the generator built the text from (its own expander for the range notation, cross-checked
against hostlist.c; the zip / next-free / same-name rules; the refusal classes): expected refusal -> non-zero exit,
the right diagnostic, file::line where tied to a line; expected acceptance -> the dumped map equals the expected map,
is functional and injective, hard-wired plug lists untouched, aliases inside the node set, listings denote the map.
"""
import os, re, json, glob, time, hashlib
import vlib
import C18 as L

CORPUS = os.path.join(vlib.VERIF, "corpus", "C13")
M = L.MAIN.encode()
hx, unhx = L.hx, L.unhx

LOGIN = b'script login { send "x\\n" expect "x" }'


# ====================================================================== independent expander of the range notation
def expand(expr):
    """prefix[lo-hi,n,...]suffix and comma lists, for the forms the generator emits; width = digits of lo"""
    out, i, depth, cur = [], 0, 0, ""
    parts = []
    for ch in expr:
        if ch == "[":
            depth += 1
        elif ch == "]":
            depth -= 1
        if ch == "," and depth == 0:
            parts.append(cur); cur = ""
        else:
            cur += ch
    parts.append(cur)
    for p in parts:
        if p == "":
            continue
        m = re.fullmatch(r"([^\[\]]*)\[([^\[\]]*)\]([^\[\]]*)", p)
        if not m:
            out.append(p)
            continue
        pre, body, suf = m.groups()
        for r in body.split(","):
            if "-" in r:
                lo, hi = r.split("-")
            else:
                lo = hi = r
            w = len(lo)
            for v in range(int(lo), int(hi) + 1):
                out.append("%s%0*d%s" % (pre, w, v, suf))
    return out


# ====================================================================== structured configurations
class Conf:
    """specs: [(name, plugs|None)]   devs: [(name, spec)]   items: ordered list of
         ('node', nodes_expr, dev, plugs_expr|None) | ('alias', name, expr) | ('device', name, spec)
       includes: nesting depth for the items part"""

    def __init__(self, specs, items, depth=0, tag="gen"):
        self.specs, self.items, self.depth, self.tag = specs, items, depth, tag

    def files(self):
        head = b""
        for name, plugs in self.specs:
            head += b'specification "%s" { timeout 1 ' % name.encode()
            if plugs is not None:
                head += b"plug name { " + b" ".join(b'"%s"' % p.encode() for p in plugs) + b" } "
            head += LOGIN + b" }\n"
        lines = []
        for it in self.items:
            if it[0] == "node":
                l = b'node "%s" "%s"' % (it[1].encode(), it[2].encode())
                if it[3] is not None:
                    l += b' "%s"' % it[3].encode()
            elif it[0] == "alias":
                l = b'alias "%s" "%s"' % (it[1].encode(), it[2].encode())
            else:
                l = b'device "%s" "%s" "/bin/cat |&"' % (it[1].encode(), it[2].encode())
            lines.append(l)
        nhead = head.count(b"\n")
        self.where = {}                       # item index -> (file, line)
        if self.depth == 0:
            for i in range(len(lines)):
                self.where[i] = (M, nhead + 1 + i)
            return [(M, head + b"\n".join(lines) + b"\n")]
        # devices stay in the main file; the rest goes down a chain of includes, split over the levels
        files = []
        k = max(1, len(lines) // (self.depth + 1))
        chunks = [lines[j * k:(j + 1) * k] if j < self.depth else lines[j * k:] for j in range(self.depth + 1)]
        idx = 0
        names = [M] + [b"inc%d.conf" % j for j in range(1, self.depth + 1)]
        for j, ch in enumerate(chunks):
            body = head if j == 0 else b"# level %d\n" % j
            base = body.count(b"\n")
            for q, l in enumerate(ch):
                self.where[idx] = (names[j], base + 1 + q)
                idx += 1
            body += b"".join(l + b"\n" for l in ch)
            if j < self.depth:
                body += b'include "%s"\n' % names[j + 1]
            files.append((names[j], body))
        return files


MSG = dict(nodev="unknown device", nospec="device specification not found", unkplug="unknown plug name", dupplug="plug already assigned",
           noplugs="more nodes than plugs", nonodes="more plugs than nodes", dupnode="duplicate node name", badalias="bad alias",
           dangling="references nonexistent node", nonodes_at_all="no nodes are defined", dupplugname="duplicate plug name")


def expect(conf):
    """the independent reading of the rules.  Returns ('ok', devices, nodes, aliases) or ('refuse', kind, item index|None)
       devices: [(name, hardwired, [(plug, node|None)] in spec order for hard-wired devices / any order otherwise)]"""
    specs = {}
    for name, plugs in conf.specs:
        if plugs is not None and len(set(plugs)) != len(plugs):
            return ("refuse", "dupplugname", None)       # a plug name addresses the device: listed once (F34)
        specs.setdefault(name, plugs)
    devs, nodes, aliases = [], [], []
    for idx, it in enumerate(conf.items):
        if it[0] == "device":
            if it[2] not in specs:
                return ("refuse", "nospec", idx)
            pl = specs[it[2]]
            devs.append(dict(name=it[1], hw=pl is not None, plugs=[[p, None] for p in (pl or [])]))
        elif it[0] == "alias":
            if any(a[0] == it[1] for a in aliases):
                return ("refuse", "badalias", idx)
            aliases.append((it[1], expand(it[2])))
        else:
            d = next((d for d in devs if d["name"] == it[2]), None)
            if d is None:
                return ("refuse", "nodev", idx)
            N = expand(it[1])
            if it[3] is not None:
                P = expand(it[3])
                for i, n in enumerate(N):                       # i-th node -> i-th plug
                    if i >= len(P):
                        return ("refuse", "noplugs", idx)
                    slot = next((s for s in d["plugs"] if s[0] == P[i]), None)
                    if slot is None:
                        if d["hw"]:
                            return ("refuse", "unkplug", idx)
                        slot = [P[i], None]
                        d["plugs"].append(slot)
                    if slot[1] is not None:
                        return ("refuse", "dupplug", idx)
                    slot[1] = n
                if len(P) > len(N):
                    return ("refuse", "nonodes", idx)
            elif d["hw"]:
                free = [s for s in d["plugs"] if s[1] is None]   # next free plugs in specification order
                if len(N) > len(free):
                    return ("refuse", "noplugs", idx)
                for n, s in zip(N, free):
                    s[1] = n
            else:
                for n in N:                                      # a plug named like the node
                    if any(s[0] == n for s in d["plugs"]):
                        return ("refuse", "dupplug", idx)
                    d["plugs"].append([n, n])
            for n in N:
                if n in nodes:
                    return ("refuse", "dupnode", idx)
                nodes.append(n)
    for name, hosts in aliases:
        if any(h not in nodes for h in hosts):
            return ("refuse", "dangling", None)
    if not nodes:
        return ("refuse", "nonodes_at_all", None)
    return ("ok", devs, nodes, aliases)


# ====================================================================== generator
PLUGSETS = [["1", "2", "3", "4"], ["1", "2", "3", "4", "5", "6", "7", "8"], ["a1", "a2", "b1", "b2"], ["01", "02", "1", "2"], ["p"]]
NODEFORMS = ["t%d", "t%02d", "n%d", "n%da", "f00%d", "node%d", "t%d-ib", "x"]


def gen_names(rng, used):
    """a node expression, mostly of fresh names; returns expr"""
    r = rng.random()
    base = rng.choice(["t", "n", "f00", "node", "c", "t0", "n1", "n1a"])
    lo = rng.choice([0, 1, 1, 2, 5, 8, 9, 10, 98, 99])
    k = rng.choice([1, 1, 2, 2, 3, 4, 6])
    pad = rng.random() < 0.25
    suf = rng.choice(["", "", "", "x", "-ib"])
    if r < 0.45:
        w = 2 if pad else 1
        return "%s[%0*d-%0*d]%s" % (base, w, lo, w, lo + k - 1, suf) if k > 1 or rng.random() < 0.3 else "%s%0*d%s" % (base, w, lo, suf)
    if r < 0.6:
        w = 2 if pad else 1
        return "%s[%0*d-%0*d,%0*d]%s" % (base, w, lo, w, lo + k - 1, w, lo + k + 3, suf)
    if r < 0.85:
        return ",".join("%s%d%s" % (rng.choice(["t", "n", "n1", "f00", "t0"]), rng.choice([1, 2, 3, 10, 11, 1, 2]) + j, suf) for j in range(k))
    if r < 0.93:
        return rng.choice(["x", "y", "z", "all", "n1", "n10", "n1a", "t01", "t1", "f001"])
    return "%s%d,%s[%d-%d]" % (base, lo + 20, base, lo, lo + k - 1)


def gen_conf(rng, want=None):
    """want: None (mostly valid) or a refusal kind to aim at"""
    nspec = rng.choice([1, 2, 2, 3])
    specs = []
    for i in range(nspec):
        hw = rng.random() < 0.6
        specs.append(("s%d" % i, list(rng.choice(PLUGSETS)) if hw else None))
    if rng.random() < 0.1:
        specs.append((specs[0][0], None if specs[0][1] else ["9"]))          # a later spec of the same name is shadowed
    items = []
    ndev = rng.choice([1, 2, 2, 3])
    devs = []
    for i in range(ndev):
        name = "d%d" % i if rng.random() < 0.93 or not devs else devs[0][0]     # sometimes a second device of the same name
        sp = rng.choice(specs)
        devs.append((name, sp))
        items.append(("device", name, sp[0]))
    used = []
    taken = {}
    nlines = rng.choice([1, 2, 3, 4, 6])
    for _ in range(nlines):
        dname, sp = rng.choice(devs)
        # the first device of that name is the one addressed
        sp = next(s for n, s in devs if n == dname)
        for _try in range(6):
            e = gen_names(rng, used)
            N = expand(e)
            if N and not (set(N) & set(used)) and len(set(N)) == len(N):
                break
        else:
            continue
        tk = taken.setdefault(dname, [])
        if sp[1] is not None:
            free = [p for p in sp[1] if p not in tk]
            r = rng.random()
            if r < 0.5:
                if len(N) > len(free):
                    continue
                items.append(("node", e, dname, None))
                tk += free[:len(N)]
            else:
                if len(N) > len(free):
                    continue
                ps = rng.sample(free, len(N))
                pe = ",".join(ps)
                if len(ps) > 1 and all(p.isdigit() and not p.startswith("0") for p in ps) and rng.random() < 0.5:
                    a = sorted(int(p) for p in ps)
                    if a == list(range(a[0], a[0] + len(a))):
                        pe, ps = "[%d-%d]" % (a[0], a[-1]), [str(v) for v in a]
                items.append(("node", e, dname, pe))
                tk += ps
        else:
            r = rng.random()
            if r < 0.6:
                if set(N) & set(tk):
                    continue
                items.append(("node", e, dname, None))
                tk += N
            else:
                ps = ["p%d" % (len(tk) + j) for j in range(len(N))]
                items.append(("node", e, dname, ",".join(ps) if rng.random() < 0.6 or len(N) == 1 else "p[%d-%d]" % (len(tk), len(tk) + len(N) - 1)))
                tk += ps
        used += N
    # aliases
    for j in range(rng.choice([0, 0, 1, 2])):
        if used:
            k = rng.randrange(1, min(4, len(used)) + 1)
            nm = "a%d" % j if rng.random() < 0.8 else rng.choice(used)                 # an alias may shadow a node name
            pos = rng.randrange(0, len(items) + 1) if rng.random() < 0.3 else len(items)   # aliases may precede the nodes they name
            pos = max(pos, ndev)
            items.insert(pos, ("alias", nm, ",".join(rng.sample(used, k))))
    c = Conf(specs, items, depth=rng.choice([0, 0, 0, 1, 2, 3]))
    if want:
        inject(rng, c, want, used, devs)
    return c


def inject(rng, c, want, used, devs):
    """append / modify one item so that the configuration breaks exactly one rule"""
    nodes_items = [i for i, it in enumerate(c.items) if it[0] == "node"]
    hwdevs = [(n, s) for n, s in devs if s[1] is not None and next(s2 for n2, s2 in devs if n2 == n) is s]
    if want == "dupnode" and used:
        n = rng.choice(used)
        variant = rng.random()
        dn = rng.choice(devs)[0]
        sp = next(s for n2, s in devs if n2 == dn)
        if sp[1] is None:
            c.items.append(("node", n if variant < 0.5 else "zz9," + n, dn, "q%d" % rng.randrange(100, 999) + (",q7" if variant >= 0.5 else "")))
        else:
            c.items.append(("node", n, dn, None))
    elif want == "dupnode-inline":
        dn, sp = rng.choice(devs)
        sp = next(s for n2, s in devs if n2 == dn)
        c.items.append(("node", "w1,w1", dn, None if sp[1] is not None else "qa,qb"))
    elif want == "nodev":
        c.items.insert(rng.randrange(len(devs), len(c.items) + 1), ("node", "u1", "nodev", rng.choice([None, "1"])))
    elif want == "nospec":
        c.items.insert(rng.randrange(0, len(c.items) + 1), ("device", "dx", "nospec"))
    elif want == "unkplug" and hwdevs:
        dn, sp = rng.choice(hwdevs)
        c.items.append(("node", "u1,u2", dn, "%s,zz" % rng.choice(sp[1])))
    elif want == "dupplug":
        dn, sp = rng.choice(devs)
        sp = next(s for n2, s in devs if n2 == dn)
        p = sp[1][0] if sp[1] else "pp"
        c.items.append(("node", "u1", dn, p))
        c.items.append(("node", "u2", dn, p) if rng.random() < 0.5 else ("node", "u2,u3", dn, "%s,%s" % (p, p)))
    elif want == "noplugs":
        dn, sp = rng.choice(devs)
        sp = next(s for n2, s in devs if n2 == dn)
        if sp[1] is not None and rng.random() < 0.5:
            c.items.append(("node", "u[1-%d]" % (len(sp[1]) + 1), dn, None))
        else:
            c.items.append(("node", "u[1-3]", dn, "u1,u2" if sp[1] is None else ",".join(sp[1][:1])))
    elif want == "nonodes":
        dn, sp = rng.choice(devs)
        sp = next(s for n2, s in devs if n2 == dn)
        c.items.append(("node", "u1", dn, "k1,k2" if sp[1] is None else ",".join((sp[1] * 2)[:2])))
    elif want == "dangling":
        c.items.append(("alias", "bad", (rng.choice(used) + "," if used and rng.random() < 0.5 else "") + "ghost"))
    elif want == "badalias":
        c.items.append(("alias", "twice", "ghost1"))
        c.items.append(("alias", "twice", "ghost2"))
    elif want == "nonodes_at_all":
        c.items = [it for it in c.items if it[0] == "device"]
    elif want == "same-name-taken":
        fdevs = [n for n, s in devs if next(s2 for n2, s2 in devs if n2 == n)[1] is None]
        if fdevs:
            dn = rng.choice(fdevs)
            c.items.append(("node", "v1", dn, "v2"))
            c.items.append(("node", "v2", dn, None))
    c.tag = "refuse:" + want


def directed():
    out = []

    def add(tag, specs, items, depth=0):
        out.append(Conf(specs, items, depth, tag))
    H = ("h", ["1", "2", "3"])
    F = ("f", None)
    D = [("device", "d1", "h"), ("device", "d2", "f")]
    add("two-devices", [H, F], D + [("node", "a,b", "d1", "3,1"), ("node", "c", "d1", None), ("node", "x,y", "d2", None), ("node", "z", "d2", "p9"), ("alias", "all", "a,z")])
    add("padding-t1-t01", [H, F], D + [("node", "t1", "d2", None), ("node", "t01", "d2", None), ("node", "t[001-002]", "d1", None)])
    add("prefixes-n1-n10-n1a", [H, F], D + [("node", "n1,n10,n1a", "d2", None), ("node", "n[1-3]a", "d1", None)])
    add("digit-prefix-f00", [H, F], D + [("node", "f00[1-2]", "d1", "[2-3]"), ("node", "f00[3-4]", "d2", "f00[1-2]")])
    add("zip-ranges", [H, F], D + [("node", "t[8-10]", "d1", "[1-3]")])
    add("zip-padded-plugs", [("h", ["01", "02", "1"]), F], D + [("node", "t[1-2]", "d1", "[01-02]"), ("node", "u", "d1", "1")])
    add("next-free-after-named", [H, F], D + [("node", "a", "d1", "2"), ("node", "b,c", "d1", None)])
    add("next-free-exact", [H, F], D + [("node", "a,b,c", "d1", None)])
    add("next-free-one-too-many", [H, F], D + [("node", "a,b,c,d", "d1", None)])
    add("plug-longer", [H, F], D + [("node", "a", "d1", "1,2")])
    add("plug-shorter", [H, F], D + [("node", "a,b", "d1", "1")])
    add("plug-repeated", [H, F], D + [("node", "a,b", "d2", "p,p")])
    add("plug-repeated-hw", [H, F], D + [("node", "a,b", "d1", "1,1")])
    add("plug-unknown", [H, F], D + [("node", "a", "d1", "9")])
    add("plug-unknown-second", [H, F], D + [("node", "a,b", "d1", "1,9")])
    add("plug-taken-earlier-line", [H, F], D + [("node", "a", "d1", "1"), ("node", "b", "d1", "1")])
    add("same-name-vs-named-plug", [H, F], D + [("node", "a", "d2", "b"), ("node", "b", "d2", None)])
    add("named-plug-vs-same-name", [H, F], D + [("node", "b", "d2", None), ("node", "a", "d2", "b")])
    add("dup-node-across-devices", [H, F], D + [("node", "a", "d1", None), ("node", "a", "d2", None)])
    add("dup-node-in-line-hw", [H, F], D + [("node", "a,a", "d1", None)])
    add("dup-node-in-range-overlap", [H, F], D + [("node", "t[1-3]", "d2", None), ("node", "t[3-4]", "d2", "q1,q2")])
    add("dup-node-padded-not-dup", [H, F], D + [("node", "t[1-3]", "d2", None), ("node", "t[01-03]", "d2", None)])
    add("dup-node-big-suffix", [H, F], D + [("node", "n33554433", "d2", None), ("node", "n33554433", "d2", "q")])     # F11 territory: > 2^25
    add("dup-node-big-suffix-range", [H, F], D + [("node", "n[33554433-33554434]", "d2", None), ("node", "n33554434", "d2", "q")])
    add("unknown-device", [H, F], D + [("node", "a", "dx", None)])
    add("device-after-node", [H, F], [("device", "d1", "h"), ("node", "a", "d2", None), ("device", "d2", "f")])
    add("unknown-spec", [H, F], [("device", "d1", "nospec"), ("node", "a", "d1", None)])
    add("shadowed-device", [H, F], [("device", "d1", "h"), ("device", "d1", "f"), ("node", "a,b", "d1", None), ("node", "c", "d1", "3")])
    add("shadowed-spec", [H, ("h", None)], [("device", "d1", "h"), ("node", "a", "d1", None), ("node", "b", "d1", "9")])
    add("alias-ok", [H, F], D + [("node", "a,b", "d2", None), ("alias", "all", "a,b")])
    add("alias-before-nodes", [H, F], D + [("alias", "all", "a,b"), ("node", "a,b", "d2", None)])
    add("alias-dangling", [H, F], D + [("node", "a,b", "d2", None), ("alias", "all", "a,c")])
    add("alias-shadows-node", [H, F], D + [("node", "a,b", "d2", None), ("alias", "a", "b")])
    add("alias-of-alias", [H, F], D + [("node", "a,b", "d2", None), ("alias", "x", "a"), ("alias", "y", "x")])
    add("alias-twice", [H, F], D + [("node", "a", "d2", None), ("alias", "x", "a"), ("alias", "x", "a")])
    add("alias-range", [H, F], D + [("node", "t[1-4]", "d2", None), ("alias", "odd", "t[1,3]")])
    add("no-nodes", [H, F], D)
    add("no-nodes-but-alias", [H, F], D + [("alias", "x", "a")])
    add("include-3", [H, F], D + [("node", "a", "d1", "2"), ("node", "b", "d2", None), ("node", "c,d", "d1", None), ("alias", "x", "a,d")], depth=3)
    add("include-error-in-leaf", [H, F], D + [("node", "a", "d1", "2"), ("node", "b", "d2", None), ("node", "c", "d1", "2")], depth=2)
    add("dup-plug-name-in-spec", [("h", ["1", "1"]), F], D + [("node", "a,b", "d1", None)])           # F34: was accepted, a and b on plug "1"
    add("dup-plug-name-in-unused-spec", [("h", ["1", "2", "3"]), F, ("u", ["7", "8", "7"])], D + [("node", "a,b", "d1", None)])
    add("dup-plug-name-in-spec-named", [("h", ["1", "1"]), F], D + [("node", "a", "d1", "1"), ("node", "b", "d1", None)])
    return out


KINDS = ["dupnode", "dupnode-inline", "nodev", "nospec", "unkplug", "dupplug", "noplugs", "nonodes", "dangling", "badalias", "nonodes_at_all", "same-name-taken"]


# ====================================================================== running
def parse_dump(txt):
    devs, nodes, aliases, H, Lst, mapok = [], None, [], {}, None, None
    for l in txt.splitlines():
        w = l.split()
        if not w:
            continue
        if w[0] == "DEV":
            pl = [(unhx(w[5 + 2 * i]).decode("latin-1"), None if w[6 + 2 * i] == "." else unhx(w[6 + 2 * i]).decode("latin-1")) for i in range(int(w[4]))]
            devs.append(dict(name=unhx(w[1]).decode("latin-1"), spec=unhx(w[2]).decode("latin-1"), hw=w[3] == "1", plugs=pl))
        elif w[0] == "NODES":
            nodes = [] if w[1] == "=" else [unhx(x).decode("latin-1") for x in w[1].split(",")]
        elif w[0] == "ALIAS":
            aliases.append((unhx(w[1]).decode("latin-1"), [] if w[2] == "=" else [unhx(x).decode("latin-1") for x in w[2].split(",")]))
        elif w[0] == "H":
            H.setdefault(unhx(w[1]).decode("latin-1"), []).append(None if w[2] == "!" else unhx(w[2]).decode("latin-1"))
        elif w[0] == "L":
            Lst = None if w[1] == "!" else unhx(w[1]).decode("latin-1")
        elif w[0] == "MAPOK":
            mapok = w[1] == "1"
    return dict(devs=devs, nodes=nodes, aliases=aliases, H=H, L=Lst, mapok=mapok)


def canon_dump(txt):
    return "\n".join(l for l in txt.splitlines() if l.split()[:1] and l.split()[0] in ("DEV", "NODES", "ALIAS"))


def evaluate(ctx, impl, model, oracle, cases):
    """cases: list of dict(files=..., conf=Conf|None, tag=...)"""
    jobs, mlines = [], []
    for i, c in enumerate(cases):
        jobs.append(("d%d" % i, "dump", c["files"]))
        mlines.append(L.case_line("l%d" % i, "lex", c["files"]))
    ri = L.run_impl(ctx, impl, jobs)
    rm = L.run_model(ctx, model, mlines)
    mlines2 = []
    for i, c in enumerate(cases):
        m = rm.get("l%d" % i)
        strs = []
        if m and m.get("toks", "-") != "-":
            for tk in m["toks"].split(","):
                if tk.startswith("TOK_STRING_VAL:"):
                    strs.append(unhx(tk.split(":", 1)[1]))
        ent = oracle.entries(list(dict.fromkeys(strs)))
        mlines2.append(L.case_line("d%d" % i, "dump", c["files"]) + " O %d %s" % (len(ent), " ".join(ent)))
    rm2 = L.run_model(ctx, model, mlines2)
    return [dict(case=c, impl=ri.get("d%d" % i), model=rm2.get("d%d" % i)) for i, c in enumerate(cases)]


def oracle_expand(oracle, expr):
    a = oracle.cache.get("hl " + hx(expr.encode()))
    if a is None:
        oracle.ask(["hl " + hx(expr.encode())])
        a = oracle.cache["hl " + hx(expr.encode())]
    if a.startswith("some"):
        v = a.split(" ", 1)[1] if " " in a else "="
        return [] if v == "=" else [unhx(x).decode("latin-1") for x in v.split(",")]
    return None


def monitor(r, msgs, oracle):
    """the property on the implementation's own outcome.  Returns list of (clause, site, detail)"""
    c, im = r["case"], r["impl"]
    out = []
    if im is None:
        return [("harness", "lost-result", "no result line")]
    cls = L.impl_class(dict(im, stage="2" if im["st"] == "exit:0" else im["stage"]), msgs)
    err = im["err"].decode("latin-1")
    if cls == "bad":
        return [("total", "crash-or-hang", "st=%s asan=%s assert=%s %s" % (im["st"], im["asan"], im["assert"], err[:300]))]
    d = parse_dump(unhx(im.get("dump", "-")).decode("latin-1")) if cls == "ok" else None
    # ---- clauses that need no expectation: evaluated on the dump of the real data structures
    if d is not None:
        ents = [(n, dv["name"], p) for dv in d["devs"] for p, n in dv["plugs"] if n is not None]
        nodes = [e[0] for e in ents]
        if len(set(nodes)) != len(nodes):
            out.append(("functional", "node-twice", "a node has two entries: %r" % sorted(n for n in set(nodes) if nodes.count(n) > 1)))
        if sorted(nodes) != sorted(d["nodes"]):
            out.append(("functional", "map-vs-conf_nodes", "nodes of the map %r != conf_nodes %r" % (sorted(nodes), sorted(d["nodes"]))))
        pairs = [(e[1], e[2]) for e in ents]
        if len(set(pairs)) != len(pairs):
            dupspec = any(len(set(p for p, _ in dv["plugs"])) != len(dv["plugs"]) and dv["hw"] for dv in d["devs"])
            out.append(("injective", "dup-plug-name-in-spec" if dupspec else "plug-twice", "a plug carries two nodes: %r" % sorted(p for p in set(pairs) if pairs.count(p) > 1)))
        for dv in d["devs"]:
            if not dv["hw"] and any(n is None for _, n in dv["plugs"]):
                out.append(("hardwired", "free-plug-on-soft-device", dv["name"]))
        if not d["nodes"]:
            out.append(("refuse", "no-nodes-accepted", "accepted without any node"))
        for name, hosts in d["aliases"]:
            miss = [h for h in hosts if h not in d["nodes"]]
            if miss:
                out.append(("alias", "dangling-accepted", "alias %s -> missing %r" % (name, miss)))
        # listings: what `nodes` / `device` print denotes exactly the map (via hostlist.c's own expansion: C14)
        if d["L"] is not None:
            ex = oracle_expand(oracle, d["L"])
            if ex is None or sorted(ex) != sorted(d["nodes"]):
                out.append(("listing", "nodes", "`nodes` lists %r = %r, conf_nodes = %r" % (d["L"], ex, d["nodes"])))
        seen = {}
        for dv in d["devs"]:
            k = seen.get(dv["name"], 0)
            seen[dv["name"]] = k + 1
            hs = d["H"].get(dv["name"], [])
            h = hs[k] if k < len(hs) else None
            want = sorted(n for _, n in dv["plugs"] if n is not None)
            ex = oracle_expand(oracle, h) if h is not None else None
            if h == "" and not want:
                continue
            if ex is None or sorted(ex) != want:
                out.append(("listing", "device", "`device` lists hosts=%r = %r for %s, its plugs carry %r" % (h, ex, dv["name"], want)))
    # ---- against the expectation computed from the structure
    cf = c.get("conf")
    if cf is None:
        return out
    e = c["expect"]
    if e[0] == "refuse":
        kind, idx = e[1], e[2]
        if cls == "ok":
            out.append(("refuse", kind, "expected refusal `%s` (item %s) but the configuration was accepted" % (MSG[kind], idx)))
        else:
            if MSG[kind] not in err:
                out.append(("refuse_diagnostic", kind, "expected diagnostic `%s`, stderr: %r" % (MSG[kind], err[:200])))
            elif idx is not None:
                f, ln = cf.where[idx]
                it = cf.items[idx]
                exact = not (it[0] == "node" and it[3] is None or it[0] == "device")     # those forms are reduced after a look-ahead token
                m = re.search(r": ([^:\s]+)::(\d+)\s*$", err.strip().splitlines()[-1]) if err.strip() else None
                if not m:
                    out.append(("refuse_diagnostic", kind + ":no-file-line", "stderr: %r" % err[:200]))
                elif exact and (m.group(1).encode() != f or int(m.group(2)) != ln):
                    out.append(("refuse_diagnostic", kind + ":wrong-file-line", "expected %s::%d, stderr: %r" % (f.decode(), ln, err[:200])))
                elif not exact and m.group(1).encode() not in [n for n, _ in c["files"]]:
                    out.append(("refuse_diagnostic", kind + ":wrong-file", "stderr: %r" % err[:200]))
    elif d is not None:
        _, devs, nodes, aliases = e
        if d["nodes"] != nodes:
            out.append(("map", "conf_nodes", "expected %r got %r" % (nodes, d["nodes"])))
        if len(devs) != len(d["devs"]):
            out.append(("map", "device-count", "expected %d got %d" % (len(devs), len(d["devs"]))))
        for ed, dd in zip(devs, d["devs"]):
            want = sorted((p, n) for p, n in ed["plugs"])
            got = sorted(dd["plugs"], key=lambda x: (x[0], x[1] or ""))
            if ed["name"] != dd["name"] or ed["hw"] != dd["hw"] or sorted(want, key=lambda x: (x[0], x[1] or "")) != got:
                out.append(("map", "device-plugs", "device %s: expected %r got %r" % (ed["name"], want, got)))
            if ed["hw"] and [p for p, _ in ed["plugs"]] != [p for p, _ in dd["plugs"]]:
                out.append(("hardwired", "plug-order-or-names", "device %s: specification order %r, device has %r" % (ed["name"], [p for p, _ in ed["plugs"]], [p for p, _ in dd["plugs"]])))
        if sorted(aliases) != sorted(d["aliases"]):
            out.append(("alias", "expansion", "expected %r got %r" % (aliases, d["aliases"])))
    return out


def compare(r, msgs):
    """R-CONF: None or (relation, detail)"""
    im, mo = r["impl"], r["model"]
    if im is None or mo is None or "class" not in mo:
        return ("R-CONF.run", "impl=%r model=%r" % (im and im["st"], mo))
    ic = L.impl_class(dict(im, stage="2" if im["st"] == "exit:0" else im["stage"]), msgs)
    mc = "ok" if mo["class"] == "ok" else ("exit+line" if mo["class"] == "exit" and mo["line"] == "1" else ("exit" if mo["class"] == "exit" else "bad"))
    if ic != mc:
        return ("R-CONF.class", "implementation=%s (st=%s err=%r) model=%s site=%s" % (ic, im["st"], im["err"][:160], mc, mo.get("site")))
    if ic == "ok":
        a = canon_dump(unhx(im.get("dump", "-")).decode("latin-1"))
        b = canon_dump(unhx(mo.get("dump", "-")).decode("latin-1"))
        if a != b:
            la, lb = a.splitlines(), b.splitlines()
            k = next((i for i in range(max(len(la), len(lb))) if (la[i] if i < len(la) else None) != (lb[i] if i < len(lb) else None)), -1)
            return ("R-CONF.dump", "first differing line %d: implementation=%r model=%r" % (k, la[k] if k < len(la) else None, lb[k] if k < len(lb) else None))
    return None


def pretty_line(l):
    w = l.split()
    return " ".join(x if i == 0 or not re.fullmatch(r"(?:[0-9a-f]{2})+", x) else unhx(x).decode("latin-1") for i, x in enumerate(w))


def mk_case(conf):
    files = conf.files()
    return dict(tag=conf.tag, files=files, conf=conf, expect=expect(conf))


def load_corpus():
    out = []
    for p in sorted(glob.glob(os.path.join(CORPUS, "*.json"))):
        d = json.load(open(p))
        if "specs" in d:
            cf = Conf([(n, pl) for n, pl in d["specs"]], [tuple(x) for x in d["items"]], d.get("depth", 0), "corpus:" + os.path.basename(p)[:-5])
            out.append(mk_case(cf))
        else:
            out.append(dict(tag="corpus:" + os.path.basename(p)[:-5], files=[(unhx(n), unhx(c)) for n, c in d["files"]], conf=None))
    return out


def case_json(c):
    d = dict(tag=c["tag"], files=[[hx(n), hx(x)] for n, x in c["files"]])
    if c.get("conf") is not None:
        d.update(specs=[[n, pl] for n, pl in c["conf"].specs], items=[list(x) for x in c["conf"].items], depth=c["conf"].depth)
    return d


def shrink(ctx, impl, model, oracle, msgs, c, sig):
    """drop items while the same (clause, site) still fails"""
    if c.get("conf") is None:
        return c
    cf = c["conf"]
    items = list(cf.items)
    i = len(items) - 1
    budget = 25
    while i >= 0 and budget > 0:
        budget -= 1
        cand = items[:i] + items[i + 1:]
        cc = mk_case(Conf(cf.specs, cand, 0, c["tag"]))
        r = evaluate(ctx, impl, model, oracle, [cc])[0]
        if any((m[0], m[1]) == sig for m in monitor(r, msgs, oracle)):
            items = cand
        i -= 1
    return mk_case(Conf(cf.specs, items, 0, c["tag"] + ":shrunk"))


def run(ctx, V):
    vlib.proof_gate(ctx, V, extract=["Extract/ExLexer.vo"])
    impl, model, codes, msgs = L.build(ctx)
    oracle = L.Oracle(impl)
    rng = ctx.rng
    quick = ctx.tier == "quick"
    cases = load_corpus() + [mk_case(c) for c in directed()]
    n = 1400 if quick else 45000
    for i in range(n):
        want = rng.choice(KINDS) if rng.random() < 0.35 else None
        cases.append(mk_case(gen_conf(rng, want)))
    # unstructured cases: C18's directed node/alias/device cases (correspondence and the expectation-free clauses only)
    for c in L.directed_cases():
        if c["tag"].startswith(("node-", "alias-", "device-", "ok", "no-nodes")) and c["tag"] not in ("node-huge-range", "node-name-5000"):
            cases.append(dict(tag="c18:" + c["tag"], files=c["files"], conf=None))
    V.rule = ("corpus + 45 directed configurations (padding t1/t01, prefixes n1/n10/n1a, digit-terminated bracket prefixes, zip of ranges, "
              "next-free after named plugs, plug lists longer/shorter/repeated/unknown/taken, same-name vs named plug, duplicate nodes across "
              "devices / inside a line / by overlapping ranges / with numeric part > 2^25, shadowed devices and specifications, aliases valid / "
              "dangling / shadowing a node / before their nodes / twice, no nodes, include nesting) + generated structures: 1-3 specifications "
              "(hard-wired plug sets or none), 1-3 devices (sometimes two of one name), 1-6 node lines over range / list / padded / suffixed "
              "expressions with or without plug lists, 0-2 aliases, include nesting 0-3; 35% of the cases get exactly one rule violation of a "
              "chosen class injected (12 classes); expectation = independent python reading of the rules over the generator's structure "
              "(own expander of the range notation, cross-checked with hostlist.c); non-trivial = the configuration has at least one node line "
              "that reaches pluglist_map (a device of that name exists); distinct by hash of the file contents")
    ctx.log("cases: %d" % len(cases))
    t0 = time.time()
    viol, mism, exp_bad = {}, [], []
    B = 800
    for off in range(0, len(cases), B):
        batch = cases[off:off + B]
        # cross-check the python expander with hostlist.c on every expression of the batch
        exprs = set()
        for c in batch:
            if c.get("conf") is not None:
                for it in c["conf"].items:
                    if it[0] == "node":
                        exprs.add(it[1])
                        if it[3] is not None:
                            exprs.add(it[3])
                    elif it[0] == "alias":
                        exprs.add(it[2])
        oracle.ask(["hl " + hx(x.encode()) for x in sorted(exprs)])
        for x in sorted(exprs):
            if oracle_expand(oracle, x) != expand(x):
                exp_bad.append((x, expand(x), oracle_expand(oracle, x)))
        for r in evaluate(ctx, impl, model, oracle, batch):
            c = r["case"]
            canon = hashlib.sha1(b"\0".join(n + b"\0" + d for n, d in c["files"])).hexdigest()
            cf = c.get("conf")
            nt = cf is not None and any(it[0] == "node" and any(x[0] == "device" and x[1] == it[2] for x in cf.items[:k]) for k, it in enumerate(cf.items))
            V.case(canon, nontrivial=nt or cf is None)
            V.count("kind:" + (c["tag"].split(":")[0] if ":" in c["tag"] else ("directed" if cf is not None and c["tag"] != "gen" else c["tag"])))
            if cf is not None:
                V.count("expect:" + (c["expect"][0] if c["expect"][0] == "ok" else "refuse:" + c["expect"][1]))
                V.count("include-depth:%d" % cf.depth)
            if r["impl"] is not None:
                V.count("impl:" + ("accepted" if r["impl"]["st"] == "exit:0" else "refused"))
            if r["model"] is not None and "site" in r["model"]:
                V.count("model-site:%s/%s" % (r["model"]["class"], r["model"]["site"]))
            if len(V.samples) < 5 and cf is not None and c["tag"].startswith(("gen", "refuse")) and sum(len(d) for _, d in c["files"]) < 900:
                V.sample(dict(tag=c["tag"], files=L.show(c), expected=(c["expect"][0] if c["expect"][0] == "ok" else "refuse: " + MSG[c["expect"][1]]),
                              implementation=(r["impl"] or {}).get("st")))
            ms = monitor(r, msgs, oracle)
            for m in ms:
                viol.setdefault((m[0], m[1]), []).append((c, m[2]))
            if not ms:
                d = compare(r, msgs)
                if d is not None:
                    mism.append((c, d))
    dt = time.time() - t0
    V.extra["cases_per_second"] = round(len(cases) / max(dt, 0.001), 1)
    V.extra["correspondence_relations"] = ["R-CONF.class (accepted / exit / exit with file::line)", "R-CONF.dump (per device in list order: name, specification, hard-wired flag, every plug with its node; conf_nodes in order; aliases in list order)"]
    ctx.log("ran %d cases in %.1fs; monitor failures: %d kinds; mismatches: %d; expander disagreements: %d" % (len(cases), dt, len(viol), len(mism), len(exp_bad)))
    for (clause, site), lst in sorted(viol.items()):
        c, detail = min(lst, key=lambda x: sum(len(d) for _, d in x[0]["files"]))
        try:
            c2 = shrink(ctx, impl, model, oracle, msgs, c, (clause, site))
        except Exception:
            c2 = c
        V.violation(clause, site, dict(config=L.show(c2, 4000), case=case_json(c2), from_case=c["tag"]), detail[:700])
    for c, (rel, detail) in mism[:20]:
        V.tie_broken("correspondence", rel, detail[:900], case=dict(config=L.show(c, 3000), case=case_json(c)))
    for x, a, b in exp_bad[:5]:
        V.tie_broken("tie", "expander", "the monitor's expander and hostlist.c disagree on %r: %r vs %r" % (x, a, b))
    V.assumptions += [
        "host-range expansion is the model's oracle hl_expand (hostlist_create + iteration of hostlist.c); the theorems of Properties/C13.v quantify over ALL oracles, i.e. assume nothing about it; what a range expression denotes, that hostlist_find (conf_node_exists) agrees with list membership for pushed single names, and that hostlist_push keeps the order of conf_nodes are facts about hostlist.c (property C14: HL model / HLSpec); the check answers the oracle with the real hostlist.c and cross-checks the monitor's own expander against it on every generated expression",
        "the LALR automaton is not modelled (as for C18): the model runs makeNode/makeDevice/makeAlias at the point bison reduces the rule; R-CONF compares the resulting data structures with the real parser's on every run",
        "the `nodes` / `device` listing clause is NOT proved in Coq: the harness computes what client.c prints (hostlist_ranged_string of the sorted conf_nodes / of the nodes pushed from the device's plug list, the same calls as _client_query_nodes_reply / _make_pluglist_str) and the monitor checks that its expansion is exactly the map; the reply framing itself belongs to C15/C03",
        "diagnostics: file::line is compared exactly for statements bison reduces without a look-ahead (node with plug list, alias); for `node` without plug list and `device` (reduced after the next token was read, possibly in another file) only the shape and a file of the case are required",
    ]


def replay(ctx, V, path):
    d = json.load(open(path))
    vlib.proof_gate(ctx, V, extract=["Extract/ExLexer.vo"])
    impl, model, codes, msgs = L.build(ctx)
    oracle = L.Oracle(impl)
    cs = d.get("case")
    if d.get("verdict") == "unproved":
        cs = next((x["case"] for x in d["no_longer_checks"] if x.get("case")), None)
    if not cs:
        print("replay file carries no case (proof-only failure): re-run ./check C13")
        return 1
    cj = cs["case"]
    if "specs" in cj:
        case = mk_case(Conf([(n, pl) for n, pl in cj["specs"]], [tuple(x) for x in cj["items"]], cj.get("depth", 0), cj["tag"]))
    else:
        case = dict(tag=cj["tag"], files=[(unhx(n), unhx(c)) for n, c in cj["files"]], conf=None)
    r = evaluate(ctx, impl, model, oracle, [case])[0]
    print("configuration:", json.dumps(L.show(case, 3000), indent=1))
    if case.get("conf") is not None:
        e = case["expect"]
        print("expected (rules read independently):", "accepted, map = %r, nodes = %r" % ([(d_["name"], d_["plugs"]) for d_ in e[1]], e[2]) if e[0] == "ok" else "refused: " + MSG[e[1]])
    im = r["impl"] or {}
    print("implementation:", im.get("st"), im.get("err", b"")[:300])
    for l in unhx(im.get("dump", "-")).decode("latin-1").splitlines():
        print("   impl  |", pretty_line(l))
    print("model:", {k: v for k, v in (r["model"] or {}).items() if k != "dump"})
    for l in unhx((r["model"] or {}).get("dump", "-")).decode("latin-1").splitlines():
        print("   model |", pretty_line(l))
    ms = monitor(r, msgs, oracle)
    cmp_ = compare(r, msgs)
    print("monitor:", ms if ms else "property holds on this case")
    print("correspondence:", cmp_ if cmp_ else "implementation and model agree")
    return 1 if (ms or cmp_) else 0
