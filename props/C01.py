"""C01 - a command never touches a plug the user did not name (DESIGN §5 C01)"""
import re
import os, sys, json, subprocess
from concurrent.futures import ThreadPoolExecutor
import vlib, pmgen, pmsim

ENQ_SRCS = [s for s in pmsim.DAEMON_SRCS if not s.endswith("/device.c")]


def build_enq(ctx):
    if not os.path.exists(os.path.join(ctx.repo, "src/powerman/parse_tab.c.regen")):
        ctx.regen_parser(); open(os.path.join(ctx.repo, "src/powerman/parse_tab.c.regen"), "w").close()
    srcs = [os.path.join(ctx.repo, s) for s in ENQ_SRCS] + [os.path.join(vlib.VERIF, "harness", "enq_h.c")]
    return ctx.cc_parallel(srcs, "enq_h", extra=["-Dmain=pm_main", '-DX_SYSCONFDIR="/nonexistent"'])


def gen_requests(rng, cfg, n, words):
    nodes = cfg.all_nodes()
    bydev = {d.name: [v for v in cfg.truth[d.name].values() if v] for d in cfg.devs}
    reqs = []
    for _ in range(n):
        word = rng.choice(words)
        mode = rng.choice(["all", "onedev", "onedev-minus1", "single", "subset", "subset", "dup", "two-devs-partial", "repad"])
        if mode == "repad":
            # names that differ from configured nodes ONLY in the zero padding of the numeric suffix (n3 / n003 for n03): they are not
            # nodes, nothing may be selected for them
            def repad(x):
                m = re.match(r"^(.*?)(\d+)$", x)
                if not m: return x + "0"
                pfx, num = m.group(1), m.group(2)
                cands = [pfx + num.lstrip("0") if num.lstrip("0") not in ("", num) else None, pfx + "0" + num, pfx + "00" + num]
                cands = [c for c in cands if c and c not in nodes]
                return rng.choice(cands) if cands else x + "0"
            t = [repad(x) for x in rng.sample(nodes, rng.randint(1, min(3, len(nodes))))] + ([rng.choice(nodes)] if rng.random() < 0.5 else [])
        elif mode == "all":
            t = list(nodes)
        elif mode == "onedev":
            t = list(bydev[rng.choice(cfg.devs).name])
        elif mode == "onedev-minus1":
            t = list(bydev[rng.choice(cfg.devs).name]); t = t[:-1] if len(t) > 1 else t
        elif mode == "single":
            t = [rng.choice(nodes)]
        elif mode == "dup":
            t = [rng.choice(nodes)] * 2 + [rng.choice(nodes)]
        elif mode == "two-devs-partial":
            t = []
            for d in rng.sample(cfg.devs, min(2, len(cfg.devs))):
                x = bydev[d.name]; t += rng.sample(x, rng.randint(1, len(x)))
        else:
            t = [x for x in nodes if rng.random() < 0.5] or [rng.choice(nodes)]
        if rng.random() < 0.3:
            rng.shuffle(t)
        reqs.append((word, t, mode))
    return reqs


def run_impl(exe, scratch, idx, cfg, reqs, consts):
    path = os.path.join(scratch, "enq%d.conf" % idx)
    open(path, "w").write(cfg.text())
    inp = "".join("REQ %d %s\n" % (consts[pmgen.KINDS[pmgen.CLIENT_COMS[w]]], ",".join(t)) for w, t, _ in reqs)
    rc, o, e = vlib.sh(["timeout", "-s", "KILL", "60", exe, path], shell=False, inp=inp.encode(), timeout=70,
                       env={"ASAN_OPTIONS": "detect_leaks=0"})     # leaks are C20's business (F10 shows up here with duplicate targets)
    return rc, o, e


def parse_q(q):
    acts = []
    for a in q.split(";"):
        if not a:
            continue
        di, com, pl = a.split(":")
        acts.append((int(di), int(com), None if pl == "NULL" else [] if pl == "EMPTY" else [bytes.fromhex(x).decode() for x in pl.split(",")]))
    return acts


def monitor(cfg, devtab, consts, word, tgts, res):
    """C01 on the implementation's own queues, with the generator's node->plug intent as oracle"""
    idx2name = {v: k for k, v in consts.items() if k.startswith("PM_")}
    base = pmgen.KINDS[pmgen.CLIENT_COMS[word]]
    tset = set(tgts)
    bad = []
    acted = set()
    for di, com, plugs in parse_q(res["q"]):
        dname = devtab[di]["name"]
        truth = cfg.truth[dname]
        acted.add(dname)
        cname = idx2name.get(com, "?")
        if not (cname == base or cname == base + "_ALL" or cname == base + "_RANGED"):
            bad.append(("wrong-script", "enqueue.variant", "script %s runs for command %s on %s" % (cname, base, dname)))
        if plugs is None:
            if word in pmgen.POWER_WORDS and not all(v is not None and v in tset for v in truth.values()):
                bad.append(("all-script-partial-target", "enqueue.all", "whole-device script %s on %s although plugs %s are not all targeted" % (cname, dname, truth)))
        else:
            for p in plugs:
                if p not in truth or truth[p] is None or truth[p] not in tset:
                    bad.append(("untargeted-plug", "enqueue.plugs", "plug %s of %s (node %s) commanded by %s; targets %s" % (p, dname, truth.get(p), cname, sorted(tset))))
    for d in cfg.devs:
        if d.name in acted and not any(v in tset for v in cfg.truth[d.name].values() if v):
            bad.append(("uninvolved-device", "enqueue.needs", "device %s has no targeted node but got an action" % d.name))
    return bad


def run(ctx, V):
    proofs_ok = vlib.proof_gate(ctx, V, extract=["Extract/ExEnqueue.vo", "Extract/ExDaemon.vo"])
    consts = pmgen.load_genconsts(ctx.coq)
    for k, v in pmgen.INDEX.items():
        if consts.get(k) != v:
            ctx.log("note: script index %s is %s in the current tree (pinned %s)" % (k, consts.get(k), v))
    enq = build_enq(ctx)
    model = ctx.ocaml_driver("enq_model", "enqmodel", "enq_drv.ml")
    nconf = 150 if ctx.tier == "quick" else 3000
    nreq = 12
    V.rule = ("R-ENQ: generated configurations (1-4 devices, hard-wired/free plugs, unused plugs, every subset of singlet/ranged/all per command) "
              "x requests (all / one device / one device minus one / single / subset / duplicates / two devices partial); the real "
              "dev_check_actions+dev_enqueue_actions queues are compared with Model.Enqueue and checked by the C01 monitor against the generator's "
              "node->plug intent; non-trivial = at least one action queued; distinct by (config, request)")
    cases = []
    for i in range(nconf):
        cfg = pmgen.gen_variant_config(ctx.rng)
        reqs = gen_requests(ctx.rng, cfg, nreq, pmgen.POWER_WORDS + pmgen.QUERY_WORDS)
        cases.append((cfg, reqs))
    with ThreadPoolExecutor(16) as ex:
        outs = list(ex.map(lambda ic: run_impl(enq, ctx.scratch, ic[0], ic[1][0], ic[1][1], consts), enumerate(cases)))
    minp = []
    parsed = []
    for (cfg, reqs), (rc, o, e) in zip(cases, outs):
        lines = o.splitlines()
        devtab = []
        for l in lines:
            if l.startswith("DEVTAB "):
                w = l.split()
                devtab.append(dict(name=bytes.fromhex(w[2]).decode(), scripts=w[3].split("=")[1], plugs=w[4].split("=")[1]))
        res = [dict(x.split("=", 1) for x in l.split()[1:]) for l in lines if l.startswith("RES ")]
        if rc != 0 or len(res) != len(reqs):
            V.tie_broken("correspondence", "R-ENQ", "harness failed rc=%s on config:\n%s\n%s" % (rc, cfg.text(), e[-1500:]), case=cfg.text())
            parsed.append(None); continue
        parsed.append((devtab, res))
        for d in devtab:
            minp.append("DEV %s %s %s" % (d["name"].encode().hex(), d["scripts"] or "-", d["plugs"] or "-"))
        for w, t, _ in reqs:
            minp.append("REQ %d %s" % (consts[pmgen.KINDS[pmgen.CLIENT_COMS[w]]], ",".join(x.encode().hex() for x in t) or "-"))
        minp.append("END")
    rc, o, e = vlib.sh([model], shell=False, inp=("\n".join(minp) + "\n").encode(), timeout=600)
    mres = [l for l in o.splitlines() if l.startswith("RES ")]
    k = 0
    for (cfg, reqs), pr in zip(cases, parsed):
        if pr is None:
            continue
        devtab, res = pr
        # the C's own device table must be the generator's intent (otherwise the oracle is not independent)
        for d in devtab:
            got = {}
            for x in (d["plugs"].split(",") if d["plugs"] else []):
                pn, nn = x.split(":")
                got[bytes.fromhex(pn).decode()] = None if nn == "-" else bytes.fromhex(nn).decode()
            if got != cfg.truth[d["name"]]:
                V.violation("node-plug-map", "conf.map", dict(config=cfg.text(), device=d["name"], got=got, intent=cfg.truth[d["name"]]),
                            "configured node->plug map differs from the documented rules")
        for (w, t, mode), r in zip(reqs, res):
            m = mres[k] if k < len(mres) else "RES <missing>"
            k += 1
            line = "RES check=%s total=%s q=%s" % (r["check"], r["total"], r["q"])
            V.case((cfg.text(), w, tuple(t)), nontrivial=(r["total"] != "0"))
            V.count("mode:" + mode); V.count("cmd:" + w); V.count("total:" + ("0" if r["total"] == "0" else "1" if r["total"] == "1" else "n"))
            for a in parse_q(r["q"]):
                V.count("variant:" + ("all" if a[2] is None else "ranged" if a[1] in (consts["PM_POWER_ON_RANGED"], consts["PM_POWER_OFF_RANGED"], consts["PM_POWER_CYCLE_RANGED"], consts["PM_RESET_RANGED"], consts["PM_BEACON_ON_RANGED"], consts["PM_BEACON_OFF_RANGED"]) else "singlet"))
            V.sample(dict(config=cfg.text(), request="%s %s" % (w, ",".join(t)), impl=line, model=m), limit=3)
            bad = monitor(cfg, devtab, consts, w, t, r)
            for clause, site, detail in bad:
                V.violation(clause, site, dict(config=cfg.text(), request="%s %s" % (w, ",".join(t)), impl=line), detail)
            # exact correspondence (queues, total and the dev_check_actions verdict)
            strip = lambda s: s
            if not bad and strip(line) != strip(m):
                V.tie_broken("correspondence", "R-ENQ", "impl: %s\nmodel: %s" % (line, m), case=dict(config=cfg.text(), request="%s %s" % (w, ",".join(t))))
    whole_path(ctx, V)


def whole_path(ctx, V):
    """the whole path client line -> host list -> enqueue -> script bytes at the device, on pmsim (the real powermand under the
    virtual OS): the plugs a simulated device is told to switch must belong to nodes the client named (pmcheck.mon_c01, ground
    truth kept by the simulated devices), also for request lines padded with blanks to the protocol's length limit; every
    run is replayed through Model/Daemon.v (R-SIM)."""
    import pmsim, pmcheck, C04
    exe = pmsim.build(ctx)
    consts = pmgen.load_genconsts(ctx.coq)
    linemax = consts.get("CP_LINEMAX", 131072)

    def gen(rng, style="healthy"):
        sc = pmcheck.gen_scenario(rng, style=style)
        if rng.random() < 0.4:
            # ranged scripts that command each plug separately inside a foreachplug (the shape of several shipped specifications): the
            # plugs a foreach visits must be the targeted ones for EVERY ranged command, not only on / off
            for d in sc.cfg.devs:
                for k in d.kinds:
                    base = k[:-len("_ranged")]
                    if k.endswith("_ranged") and base in ("on", "off", "cycle", "reset", "beacon_on", "beacon_off"):
                        d.bodies[k] = 'foreachplug {\n\t\t\t%s\n\t\t}' % pmgen.script_text(base).replace("\n\t\t", "\n\t\t\t")
            sc.tags["perplug"] = True
        nodes = sc.cfg.all_nodes()
        pairs = [(a, b) for a in nodes for b in nodes if b.startswith(a) and len(b) == len(a) + 1]
        r = rng.random()
        if r < 0.5 and pairs:
            # a request whose LAST target has a valid shorter prefix, padded with leading blanks so that a line buffer of
            # CP_LINEMAX bytes would cut exactly the last character of that name (and the line end)
            a, b = rng.choice(pairs)
            w = rng.choice(["on", "off", "cycle"])
            data = ("%s %s\r\n" % (w, b)).encode()
            tot = linemax + 2 + rng.choice([0, 0, 0, 1, -1])
            k = rng.randrange(sc.tags["ncli"])
            sc.script += [("send", k, b" " * (tot - len(data)) + data), ("wait", k)]
            sc.requests.append(dict(client=k, line="%s %s" % (w, b), word=w, targets=[b], mode="padded", step=len(sc.script) - 2))
            sc.tags["padded"] = tot; sc.tags["no_replay"] = True
        elif r < 0.7:
            # pad one power request with leading blanks so that its last byte falls around the CP_LINEMAX boundary
            idx = [i for i, st in enumerate(sc.script) if st[0] == "send" and st[2].split(b" ")[0] in (b"on", b"off", b"cycle", b"reset")]
            if idx:
                i = rng.choice(idx)
                k, data = sc.script[i][1], sc.script[i][2]
                tot = linemax + rng.choice([-40, -2, -1, 0, 1, 2, 3, 5, 9])
                pad = max(0, tot - len(data))
                sc.script[i] = ("send", k, b" " * pad + data)
                sc.tags["padded"] = tot
                sc.tags["no_replay"] = True      # the extracted model's List.rev-based blank stripping is quadratic: a 128 KiB line takes minutes
        return sc
    C04.rsim(ctx, V, exe, 120 if ctx.tier == "quick" else 4000, styles=("healthy", "healthy", "mixed"), prefix="c01w", monitors=("alive", "c01", "protocol"), gen=gen)
    # directed: node names that are prefixes of one another (n1 / n15, t0 / t01 ...), last target cut at every position near the limit
    scs = []
    for j in range(12 if ctx.tier == "quick" else 200):
        rng = ctx.rng
        base = rng.choice(["n", "t", "node"])
        short = base + str(rng.randint(0, 9)); long_ = short + str(rng.randint(0, 9))
        cfg = pmgen.Config()
        kinds = ["login", "status"] + rng.choice([["on", "off"], ["on", "off", "on_ranged", "off_ranged"], ["on_ranged", "off_ranged"]])
        d = pmgen.Dev("d0", kinds)
        cfg.devs.append(d); cfg.truth["d0"] = {short: short, long_: long_, base + "x": base + "x"}
        cfg.node_lines.append(("%s,%s,%sx" % (short, long_, base), "d0", None))
        w = rng.choice(["on", "off"])
        data = ("%s %s\r\n" % (w, long_)).encode()
        tot = linemax + 2 + (j % 3) - 1
        sc = pmcheck.Scenario(cfg, [("connect",), ("wait", 0), ("send", 0, b" " * (tot - len(data)) + data), ("wait", 0)], dict(style="directed", ncli=1, padded=tot, no_replay=True))
        sc.requests.append(dict(client=0, line="%s %s" % (w, long_), word=w, targets=[long_], mode="padded", step=2))
        scs.append(sc)
    # directed: a ranged script handed a plug expression of 80 characters or more (names that do not compress): the text the device
    # receives must be the whole expression (the %s of a ranged send goes through a fixed-size first attempt that has to grow)
    for j in range(8 if ctx.tier == "quick" else 120):
        rng = ctx.rng
        cfg = pmgen.Config()
        kinds = ["login", "status"] + rng.choice([["on_ranged", "off_ranged"], ["on", "off", "on_ranged", "off_ranged"], ["on_ranged", "off_ranged", "cycle_ranged", "reset_ranged"]])
        d = pmgen.Dev("d0", kinds)
        names = [w + rng.choice(["-compute-blade", "-io", "-login-node", "-gpu-partition-a"]) for w in rng.sample(pmgen.LONG_WORDS, rng.randint(7, 12))]
        cfg.devs.append(d); cfg.truth["d0"] = {n: n for n in names}
        cfg.node_lines.append((",".join(names), "d0", None))
        S = [("connect",), ("wait", 0)]
        sc = pmcheck.Scenario(cfg, S, dict(style="directed-long-ranged", ncli=1))
        for _ in range(3):
            tg = rng.sample(names, rng.randint(5, len(names)))
            w = rng.choice([k[:-7] for k in kinds if k.endswith("_ranged")])
            S += [("send", 0, ("%s %s\r\n" % (w, ",".join(tg))).encode()), ("wait", 0)]
            sc.requests.append(dict(client=0, line="%s %s" % (w, ",".join(tg)), word=w, targets=tg, mode="long-ranged", step=len(S) - 2))
        scs.append(sc)
    # directed: for EVERY ranged command a script that commands each plug separately inside a foreachplug / foreachnode, and a request naming
    # a strict subset of the device's nodes (the plugs a foreach visits are the targeted ones, whatever the command)
    word_of = {v: k for k, v in pmgen.CLIENT_COMS.items()}
    for base in ("on", "off", "cycle", "reset", "beacon_on", "beacon_off"):
        for loop in ("foreachplug", "foreachnode"):
            rng = ctx.rng
            cfg = pmgen.Config()
            d = pmgen.Dev("d0", ["login", "status", base + "_ranged"], hardwired=["p1", "p2", "p3", "p4", "p5"])
            d.bodies[base + "_ranged"] = '%s {\n\t\t\t%s\n\t\t}' % (loop, pmgen.script_text(base).replace("\n\t\t", "\n\t\t\t"))
            cfg.devs.append(d); cfg.truth["d0"] = {"p1": "n0", "p2": "n1", "p3": "n2", "p4": "n3", "p5": None}
            cfg.node_lines.append(("n[0-3]", "d0", "p[1-4]"))
            tg = sorted(rng.sample(["n0", "n1", "n2", "n3"], rng.randint(1, 3)))
            w = word_of[base]
            S = [("connect",), ("wait", 0), ("send", 0, ("%s %s\r\n" % (w, ",".join(tg))).encode()), ("wait", 0)]
            sc = pmcheck.Scenario(cfg, S, dict(style="directed-perplug-ranged", ncli=1, perplug=True))
            sc.requests.append(dict(client=0, line="%s %s" % (w, ",".join(tg)), word=w, targets=tg, mode="perplug", step=2))
            scs.append(sc)
    pmcheck.run_batch(ctx, V, exe, scs, ["alive", "c01", "protocol"], "c01d")


def replay(ctx, V, path):
    rep = json.load(open(path))
    print(json.dumps(rep, indent=1)[:4000])
    return 0
