"""C05 - a sick device only affects requests that target its own nodes (DESIGN §5 C05), device layer + differential monitors"""
import json, copy, random
import vlib, pmgen, pmcheck, C07, C08


def sicken(rng, ops, j):
    """the same history with device j sick: its bytes replaced by junk / dropped, its connection closed, its connects refused"""
    out = []
    for o in ops:
        w = o.split()
        if w[0] == "FEED" and int(w[1]) == j:
            r = rng.random()
            if r < 0.4: continue
            if r < 0.8: o = "FEED %d %s" % (j, C07.HX(rng.choice(C07.JUNK)))
            else: o = "PEERCLOSE %d" % j
        elif w[0] == "PLAN" and int(w[1]) == j:
            o = "PLAN %d %s" % (j, " ".join(rng.choice(["fail", "pending", "now"]) for _ in w[2:]))
        out.append(o)
    return out


def rdev_differential(ctx, V, consts, devh, n):
    """R-DEV level, on the IMPLEMENTATION: two devices, requests only for nodes of device 0; run the history with device 1 healthy and sick;
    device 0's state dump, the bytes it was sent, its connect/disconnect events and the completions of its clients must be identical after
    every pass (the clock is explicit, so this includes timing)"""
    cases = []
    tries = 0
    while len(cases) < n and tries < 20 * n:
        tries += 1
        cfg, asts, ops = C07.gen_case(ctx.rng, consts, "any")
        if len(cfg.devs) != 2: continue
        n0 = set(cfg.node_lines[0][0].split(","))
        keep = []
        for o in ops:
            if o.startswith("NEWARGS") or o.startswith("ENQ"):
                tg = [bytes.fromhex(x).decode() for x in o.split()[-1].split(",")]
                tg = [t for t in tg if t in n0] or [sorted(n0)[0]]
                o = " ".join(o.split()[:-1] + [",".join(t.encode().hex() for t in tg)])
            keep.append(o)
        cases.append((cfg, keep, sicken(ctx.rng, keep, 1)))
    from concurrent.futures import ThreadPoolExecutor
    with ThreadPoolExecutor(16) as ex:
        ra = list(ex.map(lambda ic: C08.run_impl(devh, ctx.scratch, 5000 + ic[0], ic[1][0], ic[1][1]), enumerate(cases)))
        rb = list(ex.map(lambda ic: C08.run_impl(devh, ctx.scratch, 7000 + ic[0], ic[1][0], ic[1][2]), enumerate(cases)))
    for (cfg, a, b), (rca, oa, ea), (rcb, ob, eb) in zip(cases, ra, rb):
        V.case(("diff", cfg.text(), tuple(b)), nontrivial=("EV DONE" in oa)); V.count("rdev-differential")
        view = lambda o: [l for l in o.splitlines() if l.startswith("DEV 0 ") or l.startswith("WROTE 0 ") or l in ("EV CONN 0", "EV DISC 0") or l.startswith("EV DONE") or l.startswith("COUNT") or l.startswith("ARGS")]
        va, vb = view(oa), view(ob)
        if rca != 0 or rcb != 0:
            V.violation("daemon-aborts", "impl rc=%d/%d" % (rca, rcb), dict(config=cfg.text(), ops=b[:200]), "the device layer died"); continue
        if va != vb:
            k = next((i for i in range(min(len(va), len(vb))) if va[i] != vb[i]), min(len(va), len(vb)))
            V.violation("interference", "device-0-view", dict(config=cfg.text(), healthy_ops=[x[:200] for x in a], sick_ops=[x[:200] for x in b]),
                        "device 0's trajectory differs when only device 1 misbehaves; first difference at line %d:\nhealthy: %s\nsick:    %s" % (k, va[k:k + 2], vb[k:k + 2]))


def client_inputs(sess):
    """(virtual time, event) of everything the clients did: the two runs of a differential are comparable only if these agree
    (the environment sends a request when the previous reply arrived, so a run in which replies are delayed asks at other times)"""
    out = []
    for k, evs in enumerate(sess.sim.events):
        if k >= len(sess.rounds): break
        t = sess.rounds[k].now
        for e in evs:
            if e.startswith("ADV "): t += int(e.split()[1])
            elif e == "CONN" or e.startswith("IN c") or e.startswith("EOF c"): out.append((t, e))
    return out


def pmsim_differential(ctx, V, exe, n):
    """whole daemon (real transports): the same scenario with device d healthy vs sick; clients whose requests never name a node of d must get
    byte-identical reply streams, and the other devices must receive identical bytes (content; virtual timestamps are compared and counted)"""
    done = 0
    for i in range(n * 4):
        if done >= n: break
        rng = random.Random(ctx.seed * 7919 + i)
        sc = pmcheck.gen_scenario(rng, style="healthy", ndev=rng.choice([2, 3]))
        sick = sc.cfg.devs[-1].name
        sick_nodes = set(v for v in sc.cfg.truth[sick].values() if v)
        if any(set(r["targets"]) & sick_nodes for r in sc.requests): continue
        done += 1
        sb = copy.copy(sc); sb.script = [("devmode", sick, rng.choice(["silent", "garbage", "partial"]))] + list(sc.script)
        if rng.random() < 0.4: sb.script.insert(3, ("close_dev", sick))
        sa = pmcheck.run_scenario(exe, sc, ctx.scratch, "c05a%d" % i, ctx.seed + i)
        sbs = pmcheck.run_scenario(exe, sb, ctx.scratch, "c05b%d" % i, ctx.seed + i)
        V.case(("pmsim-diff", sc.cfg.text(), repr(sb.script)), nontrivial=True); V.count("pmsim-differential")
        for bad in pmcheck.mon_alive(sbs, sb):
            V.violation(bad[0], bad[1], sb.describe(), bad[2])
        same_inputs = client_inputs(sa) == client_inputs(sbs)
        V.count("inputs-equal" if same_inputs else "inputs-differ")
        if not same_inputs and any(d.ping for d in sc.cfg.devs if d.name != sick):
            # a healthy device with a ping period behaves differently when asked at different times (a request queued behind a ping that is
            # being answered slowly shares its fate): not interference by the sick device but a different question; counted, not judged
            V.count("skipped:ping-and-different-request-times"); continue
        for k in sa.client_out:
            if sa.client_out.get(k) != sbs.client_out.get(k):
                V.violation("interference", "client-stream", dict(sb.describe(), sick=sick, healthy=sa.client_out.get(k, b"").decode("latin-1")[-600:], with_sick=sbs.client_out.get(k, b"").decode("latin-1")[-600:]),
                            "client %d never names a node of %s, yet its replies differ when %s misbehaves" % (k, sick, sick))
            V.count("timestamps-equal" if sa.client_times.get(k) == sbs.client_times.get(k) else "timestamps-differ")
        rx = lambda s: sorted((s.conn_dev.get(c), d) for c, d in s.dev_rx.items() if s.conn_dev.get(c) != sick)
        if rx(sa) != rx(sbs):
            V.violation("interference", "device-bytes", dict(sb.describe(), sick=sick), "bytes received by the healthy devices differ when %s misbehaves" % sick)


# ------------------------------------------------------------------------------------------- directed pmsim differentials: delay / refusing tcp device
DELAY_TOL = 20000          # us: poll works in ms and the environment charges 50 us per zero time-out round


def _two_dev_cfg(rng, delay, d0_transport="pipe"):
    """d0 (coprocess, healthy, listed FIRST) whose `on` / `off` scripts sit in a `delay` between send and expect; d1 (tcp) listed after it"""
    cfg = pmgen.Config()
    d0 = pmgen.Dev("d0", ["login", "on", "off", "status"], hardwired=["p1", "p2"], transport=d0_transport, timeout=rng.choice([4.0, 6.0]))
    for k in ("on", "off"):
        body = pmgen.script_text(k)
        first, rest = body.split("\n", 1)
        d0.bodies[k] = first + "\n\t\tdelay %s\n" % delay + rest
    # ... and whose `status` script sleeps between the expect that captures ($1, $2) and the setplugstate that uses them: passes of
    # the select loop happen in between (whatever another device does in them must not disturb d0's captured groups)
    sb = pmgen.script_text("status")
    head, tail = sb.split("\n\t\t\tsetplugstate", 1) if "\n\t\t\tsetplugstate" in sb else sb.split("\n\t\tsetplugstate", 1)
    d0.bodies["status"] = head + "\n\t\tdelay 0.3\n\t\tsetplugstate" + tail
    d1 = pmgen.Dev("d1", ["login", "on", "off", "status"], hardwired=["p1"], transport="tcp", timeout=rng.choice([3.0, 5.0]))
    cfg.devs += [d0, d1]
    cfg.node_lines += [("n0,n1", "d0", "p1,p2"), ("n2", "d1", "p1")]
    cfg.truth = {"d0": {"p1": "n0", "p2": "n1"}, "d1": {"p1": "n2"}}
    return cfg


def _reply_times(sess, k):
    """virtual time at which each terminal line of client k's stream was complete"""
    out, acc = [], b""
    for t, data in sess.client_times.get(k, []):
        acc += data
        n = len(pmcheck.TERMINAL.findall(acc))
        while len(out) < n: out.append(t)
    return out


def pmsim_directed(ctx, V, exe, n):
    """(a) timing: the same requests on healthy d0 only, with d1 healthy vs d1 refusing every connect (back-off running): client streams AND the
    virtual times of the replies must agree (d0's scripts wait in a `delay`: only the poll time-out wakes the daemon);
    (b) mixed: a request spanning d0 and the refusing d1 gets its terminal reply within d1's time-out, d0 is commanded, d0's nodes are reported"""
    refusals = ["refuse-hup", "refuse-soerr", "syncfail"]      # (PLAN lines, not PLANDEFAULT: pmsim.c parses `PLANDEFAULT x` as `PLAN DEFAULT`)
    jobs = []
    for i in range(n):
        rng = random.Random(ctx.seed * 104729 + i)
        delay = rng.choice(["0.7", "1.5", "2.5", "3.2"])
        cfg = _two_dev_cfg(rng, delay, d0_transport="tcp" if i % 6 == 4 else "pipe")
        kind = rkind = refusals[i % 3]
        reqs = [rng.choice(["on n0", "off n1", "on n[0-1]", "off n0"]) for _ in range(rng.randint(1, 3))]
        S = [("connect",), ("wait", 0)]
        if rng.random() < 0.5: S += [("sleep", rng.choice([300000, 1500000, 2600000]))]
        for r in reqs: S += [("send", 0, (r + "\r\n").encode()), ("wait", 0)]
        S += [("send", 0, b"status n[0-1]\r\n"), ("wait", 0)]
        sa = pmcheck.Scenario(cfg, list(S), dict(style="c05-delay", sick="d1", kind="healthy"))
        if i % 6 == 3:
            # d1 accepts the connection and then says nothing: it sits in its login expect, which is re-run in every pass
            kind = "silent-login"
            sb = pmcheck.Scenario(cfg, [("devmode", "d1", "silent")] + list(S), dict(style="c05-delay", sick="d1", kind=kind))
        elif i % 6 == 4:
            # BOTH devices on tcp; d1 answers line noise whose last byte in every read is 0xFF (a telnet IAC with nothing behind it):
            # the telnet parser position is per connection, not per process
            kind = "ff-tail-noise"
            sb = pmcheck.Scenario(cfg, [("devmode", "d1", "fftail")] + list(S), dict(style="c05-delay", sick="d1", kind=kind))
        elif i % 6 == 5:
            # d1 floods: whenever the daemon reads from it there is more (the virtual OS says HANG read-loop if the daemon never gets back
            # to poll); d0's conversation must go on as if d1 were healthy
            kind = "flood"
            sb = pmcheck.Scenario(cfg, [("connect",), ("wait", 0), ("flood_dev", "d1", 1)] + list(S[2:]) + [("flood_dev", "d1", 0)], dict(style="c05-delay", sick="d1", kind=kind, no_replay=True, max_rounds=6000))
        else:
            sb = pmcheck.Scenario(cfg, [("raw", ["PLAN " + kind] * 80)] + list(S), dict(style="c05-delay", sick="d1", kind=kind), env={"PMSIM_PLAN": kind})
        M = [("raw", ["PLAN " + rkind] * 80), ("connect",), ("wait", 0), ("send", 0, rng.choice([b"on n[0-2]\r\n", b"off n0,n2\r\n", b"on n2,n1\r\n"])), ("wait", 0),
             ("send", 0, b"status n[0-2]\r\n"), ("wait", 0)]
        cfgm = cfg if i % 6 != 4 else _two_dev_cfg(random.Random(ctx.seed * 104729 + i), delay)     # (the connect plans hit every tcp device: d0 on a pipe here)
        sm = pmcheck.Scenario(cfgm, M, dict(style="c05-mixed", sick="d1", kind=rkind), env={"PMSIM_PLAN": rkind})
        jobs.append((i, sa, sb, sm))
    from concurrent.futures import ThreadPoolExecutor

    def one(j):
        i, sa, sb, sm = j
        return (pmcheck.run_scenario(exe, sa, ctx.scratch, "c05da%d" % i, ctx.seed + i), pmcheck.run_scenario(exe, sb, ctx.scratch, "c05db%d" % i, ctx.seed + i),
                pmcheck.run_scenario(exe, sm, ctx.scratch, "c05dm%d" % i, ctx.seed + i))
    with ThreadPoolExecutor(16) as ex:
        res = list(ex.map(one, jobs))
    for (i, sa, sb, sm), (ra, rb, rm) in zip(jobs, res):
        V.case(("pmsim-delay", sb.cfg.text(), repr(sb.script)), nontrivial=True); V.count("pmsim-delay-differential")
        w = dict(sb.describe(), events=rb.sim.events)
        for bad in pmcheck.mon_alive(rb, sb) + pmcheck.mon_no_wedge(rb, sb):
            V.violation(bad[0], bad[1], w, bad[2])
        # a sick device must not cost the daemon anything that runs out: descriptors (every session of the healthy devices ends when the
        # limit is reached), children
        for bad in pmcheck.mon_c20(rb, sb):
            if bad[0] in ("fd-ledger", "children"):
                V.violation("interference", "resource-" + bad[1], w, "while d1 misbehaves (%s): %s" % (sb.tags.get("kind"), bad[2]))
        if ra.client_out.get(0) != rb.client_out.get(0):
            V.violation("interference", "client-stream", dict(w, healthy=ra.client_out.get(0, b"").decode("latin-1")[-500:], with_sick=rb.client_out.get(0, b"").decode("latin-1")[-500:]),
                        "the client only names nodes of d0, yet its replies differ when d1 misbehaves (%s)" % sb.tags.get("kind", "?"))
        else:
            ta, tb = _reply_times(ra, 0), _reply_times(rb, 0)
            dmax = max([abs(x - y) for x, y in zip(ta, tb)] + [0])
            V.count("delay-timestamps-within-tolerance" if dmax <= (DELAY_TOL if sb.tags.get("kind") != "flood" else 150000) else "delay-timestamps-off")
            # (under a flood every pass of the loop finds work and costs 5 ms of virtual time: a reply some twenty passes after its request may
            #  be that much later; a device that makes the others WAIT costs seconds)
            tol = DELAY_TOL if sb.tags.get("kind") != "flood" else 150000
            if len(ta) != len(tb) or dmax > tol:
                V.violation("interference", "reply-time", dict(w, healthy_times=ta, with_sick_times=tb),
                            "replies for d0's nodes arrive at different virtual times when d1 misbehaves (max difference %d us > %d): d0's `delay` wake-up depends on d1" % (dmax, tol))
        # (b) mixed
        V.case(("pmsim-mixed", sm.cfg.text(), repr(sm.script)), nontrivial=True); V.count("pmsim-mixed")
        wm = dict(sm.describe(), events=rm.sim.events, client_out=rm.client_out.get(0, b"").decode("latin-1")[-800:])
        for bad in pmcheck.mon_alive(rm, sm) + pmcheck.mon_no_wedge(rm, sm) + pmcheck.mon_protocol(rm, sm):
            V.violation(bad[0], bad[1], wm, bad[2])
        tm = _reply_times(rm, 0)
        tmo1 = int(sm.cfg.devs[1].timeout * 1000000); tmo0 = int(sm.cfg.devs[0].timeout * 1000000)
        bound = tmo1 + tmo0 + 4000000          # banner, then each reply at most one device time-out (+ the delay) after its request
        if len(tm) >= 2 and tm[1] - tm[0] > bound:
            V.violation("mixed", "reply-late", dict(wm, times=tm), "the reply to a request spanning d0 and the refusing d1 took %d us (> %d)" % (tm[1] - tm[0], bound))
        cmd = sm.script[3][2].decode().split()[0].upper()
        if not any(l[1] == cmd and l[3] == "answered" for l in rm.devs["d0"].log):
            V.violation("mixed", "healthy-device-not-commanded", wm, "d0 never received its share (%s) of the request spanning d0 and the refusing d1" % cmd)
        out = rm.client_out.get(0, b"")
        if rm.alive_after_script and not rm.wedged and b"d1: connect timeout" not in out and b"d1" not in out:
            V.violation("mixed", "sick-device-not-reported", wm, "the reply does not name the refusing device d1")
        V.count("mixed-ok")


def run(ctx, V):
    consts, devh, enq, model = C07.setup(ctx, V)
    n = 200 if ctx.tier == "quick" else 5000
    cases = [(c, a, C07.uniq_clients(o)) for c, a, o in C08.directed_cases(consts)] + C07.directed(consts, ctx.rng) + [C07.gen_case(ctx.rng, consts, "any") for _ in range(n)]
    C07.correspond(ctx, V, cases, ("fd", "fifo", "count", "timer"), consts, devh, enq, model)
    rdev_differential(ctx, V, consts, devh, 120 if ctx.tier == "quick" else 3000)
    import pmsim
    exe = pmsim.build(ctx)
    pmsim_differential(ctx, V, exe, 40 if ctx.tier == "quick" else 1500)
    pmsim_directed(ctx, V, exe, 12 if ctx.tier == "quick" else 300)
    scs = [pmcheck.gen_scenario(ctx.rng, style="faults", ndev=3) for i in range(120 if ctx.tier == "quick" else 4000)]
    pmcheck.run_batch(ctx, V, exe, scs, ["alive", "wedge", "protocol"], "c05")
    V.rule = ("(1) R-DEV exact correspondence as in C07 (hostile histories incl. two devices with one sick); (2) R-DEV differential on the IMPLEMENTATION: two-device "
              "histories whose requests name only nodes of device 0, run with device 1 healthy and with device 1 sick (junk, dropped bytes, peer close, refused "
              "connects): device 0's dump, bytes, connect events and completions must be identical after every pass (explicit clock = identical timing); "
              "(3) pmsim differential (whole daemon, real transports): healthy-only clients' reply streams and the healthy devices' received bytes identical "
              "with device d silent / garbage / partial / closed (virtual timestamps compared and counted, not a verdict); (4) pmsim fault scenarios with alive / "
              "wedge / protocol monitors; (5) pmsim directed differentials: d0 (coprocess, listed first, on/off scripts waiting in a `delay`) + d1 (tcp) healthy vs "
              "refusing every connect (refuse-hup / refuse-soerr / syncfail, back-off running): the client's streams identical and the virtual times of its replies "
              "within 20 ms (judged); (6) mixed: a request spanning d0 and the refusing d1 gets its terminal reply within the device time-outs, d0 is commanded, d1 "
              "is named, protocol / wedge monitors.  The R-DEV monitor `timer` (requested time-out covers the head's deadline) runs on every R-DEV history.  "
              "(2)-(6) are search on the implementation, not proof.")


def replay(ctx, V, path):
    print(json.dumps(json.load(open(path)), indent=1)[:6000]); return 0
