#!/usr/bin/env python3
"""prepare one wave of seeded-change agents:  tools/seedprompts.py <scratch dir> <k1> <k2> <ID>=<areas text> ...
   writes <scratch>/<ID>.property.json (the property text only), <scratch>/<ID>.prompt.txt, creates the worktree <scratch>/wt-<ID> of /repo.
   The agent gets nothing from /verif: the prompt names what earlier agents tried (descriptions only) so that it goes elsewhere."""
import json, glob, os, sys
scratch, k1, k2 = sys.argv[1], sys.argv[2], sys.argv[3]
props = {json.loads(l)["id"]: json.loads(l) for l in open('/verif/properties.jsonl')}
for spec in sys.argv[4:]:
    pid, area = spec.split("=", 1)
    tried = [json.load(open(m))["what"] for m in sorted(glob.glob('/verif/seeded/%s-*/meta.json' % pid))]
    tried = "; ".join('"%s"' % (t[:170].replace('"', "'")) for t in tried)
    json.dump(props[pid], open('%s/%s.property.json' % (scratch, pid), 'w'), indent=1)
    W = "%s/wt-%s" % (scratch, pid); O = "%s/out-%s" % (scratch, pid)
    txt = f"""You are testing how good somebody else's verification of an open-source C project is, by planting realistic bugs.  You work ONLY inside the scratch git worktree {W} (a checkout of chaos/powerman: a daemon `powermand`, a client `powerman`, libpowerman, device scripts under etc/devices, tests under t/) and in {O} (create it).  You must NOT read, list or touch /verif or /repo or any other directory under {scratch}: you are given nothing of the verification, only the text of ONE semantic property the project is supposed to satisfy.  Read it now: {scratch}/{pid}.property.json (fields: statement, quantifier, why_tests_cant, anchors).

TASK: produce TWO independent source changes (call them {k1} and {k2}), each of which
 (a) BREAKS that property for some inputs / schedules / histories,
 (b) still compiles without new warnings, and still passes the project's whole test suite unchanged,
 (c) needs something SPECIFIC to manifest (a particular configuration shape, timing, fault, input size ...) - not "every request fails",
 (d) looks like something a developer could plausibly write (a clean-up, an optimisation, a refactoring, an off-by-one, a dropped case) - 3 to 25 changed lines, in the files the property is anchored in or their helpers,
 (e) is different in kind from the other one (different function / mechanism), and avoids these candidates that were already tried: {tried}.  Good areas: {area}.
Build: `cd {W} && ./autogen.sh && ./configure && make -j8 && make -j8 check TESTS=` (builds the test helpers).  The test suite binds fixed TCP ports, so run it as: `unshare -n sh -c 'ip link set lo up; make -j8 check' > check.log 2>&1` and sum the `# PASS:` / `# FAIL:` / `# ERROR:` lines (baseline: 880 pass, 0 fail).  ALWAYS wrap any daemon / client / helper you start in `timeout -s KILL <seconds>` (a wedged powermand ignores SIGTERM), never use `pkill`.  powermand can be run in the foreground against a config file with coprocess devices and speaks the line protocol on stdin/stdout with `--stdio` (see t/sharness.d and t/t00*.t for how the tests do it; devices like `device "d0" "vpc" "/path/to/t/simulators/vpcd |&"`; write your own tiny device simulator in python as a coprocess where needed; for tcp devices or several clients run the demo inside `unshare -n sh -c 'ip link set lo up; ...'` so that a fixed port cannot collide).
For each change k in {{{k1}, {k2}}} write into {O}/k/:
   patch.diff            `git diff` against the pristine worktree (apply with `git apply`), nothing but the source change
   demo.sh + helper files   `demo.sh <path-to-built-tree>` exits 0 when the property holds on that tree and non-zero when it is violated; it must exit 0 on the pristine build and non-zero on the patched build; self-contained (only python3 / sh / gcc and the binaries and sources of the tree it is given), every process under `timeout -s KILL`, finishes within 90 s
   demo_baseline.txt, demo_seeded.txt   the demo's output on the pristine and on the patched build
   NOTES.md              the change, which clause of the property it breaks and why, why the existing tests do not notice, what exactly is needed for it to manifest
Procedure per change: start from the pristine tree (`git checkout -- .`), build, write the demo and confirm exit 0, apply your change, rebuild, run the whole suite (must stay 880 / 0), confirm the demo now fails, save the files, then `git checkout -- .` again.  If a candidate change makes a test fail or cannot be shown by a demo, discard it and try another.
Your final message: for each change, 3-5 lines (file / function, what it breaks, what is needed to manifest, suite totals, demo exit codes before / after).  Do not include anything else.
"""
    open('%s/%s.prompt.txt' % (scratch, pid), 'w').write(txt)
    os.system("git -C /repo worktree add --detach %s HEAD >/dev/null 2>&1" % W)
    print(pid, "->", W)
