#!/usr/bin/env python3
"""store one confirmed seeded change:  tools/seedstore.py <name e.g. C03-3> <srcdir> "<what>" "<needs>"  (after tools/seedconfirm.sh said
   demo_unpatched_rc=0 suite_pass=880 suite_fail=0 demo_patched_rc=1)"""
import json, os, shutil, sys
name, src, what, needs = sys.argv[1:5]
prop = name.split("-")[0]
d = '/verif/seeded/' + name
os.makedirs(d, exist_ok=True)
for f in os.listdir(src):
    if os.path.isfile(os.path.join(src, f)): shutil.copy(os.path.join(src, f), os.path.join(d, f))
m0 = json.load(open('/verif/seeded/C11-1/meta.json'))
m = {"property": prop, "seed": name, "origin": m0["origin"] + " (later wave)", "base_commit": os.popen("git -C /repo rev-parse --short HEAD").read().strip(),
     "files_touched": sorted(set(l.split()[-1][2:] for l in open(os.path.join(d, 'patch.diff')) if l.startswith('+++ b/'))),
     "what": what, "needs_to_manifest": needs,
     "confirmed": {"how": m0["confirmed"]["how"], "demo_unpatched_rc": 0, "suite_pass": 880, "suite_fail": 0, "demo_patched_rc": 1},
     "checks_run": [], "detected_by": [], "results": {}}
json.dump(m, open(os.path.join(d, 'meta.json'), 'w'), indent=1)
print("stored", d)
