#!/bin/bash
# run checks against /repo + one seeded change, without touching /repo:
#   tools/seedtest.sh <dir-with-patch.diff | patch file> <check id>...
# prints one line per check: <id> rc=<n> <VIOLATION line if any>
set -u
src=$(readlink -f "$1"); shift
[ -d "$src" ] && src=$src/patch.diff
work=$(mktemp -d /tmp/seedrun.XXXXXX)
trap 'rm -rf "$work"' EXIT
rsync -a --exclude .git /repo/ "$work/repo/"
( cd "$work/repo" && git apply --unsafe-paths -p1 "$src" ) || { echo "PATCH DOES NOT APPLY: $src"; exit 2; }
export VERIF_REPO=$work/repo VERIF_EVIDENCE_DIR=$work/evidence VERIF_REPLAY_DIR=${SEED_REPLAY_DIR:-$work/replay}
for id in "$@"; do
  out=$(cd /verif && timeout -s KILL ${SEED_TIMEOUT:-900} ./check $id --tier ${SEED_TIER:-quick} 2>$work/err.$id); rc=$?
  echo "$id rc=$rc $(echo "$out" | grep -m1 '^VIOLATION' ) $(echo "$out" | grep -c '^KNOWN-FINDING') known"
  [ -n "${SEED_VERBOSE:-}" ] && { echo "$out" | tail -5; grep BROKEN $work/err.$id | head -3 | cut -c1-600; }
done
