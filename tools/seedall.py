#!/usr/bin/env python3
"""run the registered checks against every seeded change (or the ones named) and record the outcome in seeded/<name>/meta.json
   usage: tools/seedall.py [name ...]      env SEED_EXTRA="C06,C15" adds checks to every seed"""
import os, sys, json, subprocess, glob, shutil, tempfile, re
V = "/verif"
EXTRA = {"C02-7": ["C08"], "C03-7": ["C08"], "C01-2": ["C06"], "C14-1": ["C01", "C06"], "C14-2": ["C03"], "C08-2": ["C07"], "C17-1": ["C08"], "C18-2": ["C18"], "C09-1": ["C07"], "C09-2": ["C11", "C15"]}
names = sys.argv[1:] or sorted(os.path.basename(os.path.dirname(p)) for p in glob.glob(V + "/seeded/*/meta.json"))
registered = {c["property_id"] for c in json.load(open(V + "/MANIFEST.json"))["checks"]}
for name in names:
    d = os.path.join(V, "seeded", name)
    meta = json.load(open(os.path.join(d, "meta.json")))
    checks = [meta["property"]] + EXTRA.get(name, []) + [x for x in os.environ.get("SEED_EXTRA", "").split(",") if x]
    checks = [c for c in dict.fromkeys(checks) if c in registered or os.path.exists("%s/props/%s.py" % (V, c))]
    rdir = tempfile.mkdtemp(prefix="seedrep.")
    env = dict(os.environ, SEED_REPLAY_DIR=rdir)
    p = subprocess.run([V + "/tools/seedtest.sh", d] + checks, stdout=subprocess.PIPE, stderr=subprocess.STDOUT, env=env, text=True)
    res = {}
    for l in p.stdout.splitlines():
        m = re.match(r"(C\d\d) rc=(\d+) ?(VIOLATION[^\n]*?)? (\d+) known", l)
        if m:
            r = dict(rc=int(m.group(2)), line=(m.group(3) or "").strip())
            rp = re.search(r"replay=(\S+)", r["line"])
            if rp and os.path.exists(rp.group(1)):
                j = json.load(open(rp.group(1)))
                r["verdict"] = j.get("verdict"); r["clause"] = j.get("clause_violated"); r["site"] = j.get("site")
                r["detail"] = str(j.get("detail") or [x.get("name") for x in j.get("no_longer_checks", [])])[:400]
                r["concrete_input"] = j.get("verdict") == "violation"
            r["line"] = re.sub(r"replay=\S+", "replay=<scratch>", r["line"])
            res[m.group(1)] = r
        elif "DOES NOT APPLY" in l:
            res["_patch"] = dict(rc=2, line=l)
    shutil.rmtree(rdir, ignore_errors=True)
    meta["checks_run"] = ["./check %s --tier quick (VERIF_REPO = copy of /repo with patch.diff applied, via tools/seedtest.sh)" % c for c in checks]
    meta["results"] = res
    meta["detected_by"] = sorted(c for c, r in res.items() if r.get("rc") == 1)
    meta["detected_with_concrete_input"] = sorted(c for c, r in res.items() if r.get("concrete_input"))
    if not os.environ.get("SEED_NOWRITE"):          # (a pass with another VERIF_SEED only looks for detections that depend on chance)
        json.dump(meta, open(os.path.join(d, "meta.json"), "w"), indent=1)
    print(name, {c: (r["rc"], r.get("clause"), "concrete" if r.get("concrete_input") else ("no-failing-input" if r.get("rc") == 1 else "")) for c, r in res.items()}, flush=True)
