#!/bin/bash
# confirm one seeded change independently, in a fresh scratch worktree of /repo:
#   tools/seedconfirm.sh <seed dir containing patch.diff + demo.sh> <name>
# prints: baseline demo rc, suite totals with the patch, demo rc with the patch; then removes the worktree
set -u
sd=$(readlink -f "$1"); name=$2
wt=/tmp/confirm-$name
git -C /repo worktree remove --force $wt >/dev/null 2>&1
git -C /repo worktree add -q $wt HEAD || exit 2
trap 'git -C /repo worktree remove --force '$wt' >/dev/null 2>&1; git -C /repo worktree prune' EXIT
cd $wt
( ./autogen.sh && ./configure && make -j8 && make -j8 check TESTS= ) >/tmp/confirm-$name.build.log 2>&1 || { echo "$name BASE BUILD FAILED"; exit 2; }
( cd "$sd" && timeout -s KILL 300 ./demo.sh $wt ) >/tmp/confirm-$name.demo0.log 2>&1; d0=$?
git apply "$sd/patch.diff" || { echo "$name PATCH DOES NOT APPLY"; exit 2; }
( make -j8 && make -j8 check TESTS= ) >/tmp/confirm-$name.build2.log 2>&1 || { echo "$name PATCHED BUILD FAILED"; exit 2; }
warn=$(grep -c 'warning:' /tmp/confirm-$name.build2.log)
unshare -n sh -c 'ip link set lo up; make -j8 check' >/tmp/confirm-$name.check.log 2>&1
p=$(grep -E "^# PASS:" /tmp/confirm-$name.check.log | awk '{s+=$3} END {print s+0}')
f=$(grep -E "^# (FAIL|ERROR):" /tmp/confirm-$name.check.log | awk '{s+=$3} END {print s+0}')
( cd "$sd" && timeout -s KILL 300 ./demo.sh $wt ) >/tmp/confirm-$name.demo1.log 2>&1; d1=$?
echo "$name demo_unpatched_rc=$d0 suite_pass=$p suite_fail=$f new_warnings=$warn demo_patched_rc=$d1"
