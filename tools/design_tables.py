#!/usr/bin/env python3
"""regenerate the generated tables of DESIGN.md from seeded/*/meta.json"""
import json, glob, os, re
V = "/verif"
rows = ["| seed | property | change (what needs to happen for it to show) | detected by (quick tier) | with a concrete failing input | not detected by |", "|---|---|---|---|---|---|"]
for p in sorted(glob.glob(V + "/seeded/*/meta.json")):
    m = json.load(open(p))
    res = m.get("results", {})
    det = m.get("detected_by", [])
    conc = m.get("detected_with_concrete_input", [])
    miss = sorted(c for c, r in res.items() if r.get("rc") == 0)
    clause = "; ".join("%s: %s" % (c, res[c].get("clause")) for c in conc if res[c].get("clause"))
    rows.append("| %s | %s | %s — needs: %s | %s | %s | %s |" % (m["seed"], m["property"], m.get("what", ""), m.get("needs_to_manifest", ""),
                ", ".join(det) or ("(not run yet)" if not res else "NONE"), clause or ", ".join(conc) or "-", ", ".join(miss) or "-"))
s = open(V + "/DESIGN.md").read()
s = re.sub(r"<!-- BEGIN GENERATED:seeded -->.*?<!-- END GENERATED:seeded -->", "<!-- BEGIN GENERATED:seeded -->\n" + "\n".join(rows) + "\n<!-- END GENERATED:seeded -->", s, flags=re.S)
open(V + "/DESIGN.md", "w").write(s)
print(len(rows) - 2, "seeds")
