/* R-DEV: the device layer of the scratch copy's device.c (queue, script interpreter, time-outs, completion,
 * reconnect/back-off, login, ping) driven through its real entry points dev_initial_connect /
 * dev_enqueue_actions / dev_pre_poll / poll / dev_post_poll, with the transport methods replaced by stubs on
 * real socket pairs and the clock virtual.  argv[1] = powerman.conf; ops on stdin (see driver/dev_drv.ml). */
#undef main
#include "device.c"
#include "parse_util.h"
#include <stdio.h>
#include <sys/socket.h>
#include <poll.h>

static long long now_us;
int __wrap_gettimeofday(struct timeval *tv, void *tz) { tv->tv_sec = now_us / 1000000; tv->tv_usec = now_us % 1000000; return 0; }

#define MAXD 16
static struct peer { int far; int open; int plans[256]; int np, ip; int finish_ok; unsigned char *q; size_t qn, qcap; } P[MAXD];
/* bytes fed to a far end that its socket has not accepted yet (floods beyond the socket buffer): kept here and pushed before every pass,
 * so that the daemon always finds either everything or more than one read's worth */
static void pushq(int i)
{
    while (P[i].open && P[i].qn > 0) {
        ssize_t n = write(P[i].far, P[i].q, P[i].qn);
        if (n <= 0) break;
        memmove(P[i].q, P[i].q + n, P[i].qn - n); P[i].qn -= n;
    }
}
static void feedq(int i, const unsigned char *b, size_t n)
{
    if (n == 0) return;
    if (P[i].qn + n > P[i].qcap) { P[i].qcap = (P[i].qn + n) * 2; P[i].q = realloc(P[i].q, P[i].qcap); }
    memcpy(P[i].q + P[i].qn, b, n); P[i].qn += n; pushq(i);
}
static Device *D[MAXD]; static int nd;
static ArgList AL[64]; static int nal;
static int idx(Device *d) { for (int i = 0; i < nd; i++) if (D[i] == d) return i; return -1; }
static void hexn(const void *s, int n) { if (n == 0) printf("-"); for (int i = 0; i < n; i++) printf("%02x", ((const unsigned char *)s)[i]); }
static void hexs(const char *s) { if (!s) { printf("-"); return; } hexn(s, strlen(s)); }

static bool stub_connect(Device *dev)
{
    int i = idx(dev), sv[2];
    assert(dev->connect_state == DEV_NOT_CONNECTED);
    assert(dev->fd == NO_FD);
    printf("EV CONN %d\n", i);
    int plan = P[i].ip < P[i].np ? P[i].plans[P[i].ip++] : 2;
    if (plan == 2) return false;
    if (socketpair(AF_UNIX, SOCK_STREAM, 0, sv) < 0) { perror("socketpair"); exit(3); }
    nonblock_set(sv[0]); nonblock_set(sv[1]);
    dev->fd = sv[0]; P[i].far = sv[1]; P[i].open = 1; P[i].qn = 0;
    if (plan == 0) { dev->connect_state = DEV_CONNECTED; dev->stat_successful_connects++; return true; }
    dev->connect_state = DEV_CONNECTING;
    return false;
}
static bool stub_finish(Device *dev)
{
    int i = idx(dev);
    if (P[i].finish_ok) { dev->connect_state = DEV_CONNECTED; dev->stat_successful_connects++; return true; }
    close(dev->fd); dev->fd = NO_FD; if (P[i].open) { close(P[i].far); P[i].open = 0; }
    dev->connect_state = DEV_NOT_CONNECTED;
    return false;
}
static void stub_disconnect(Device *dev)
{
    int i = idx(dev);
    static unsigned char tmp[1 << 17];
    if (P[i].open) { int n = read(P[i].far, tmp, sizeof tmp); if (n > 0) { printf("WROTE %d ", i); hexn(tmp, n); printf("\n"); } }
    printf("EV DISC %d\n", i);
    if (dev->fd >= 0) { close(dev->fd); dev->fd = NO_FD; }
    if (P[i].open) { close(P[i].far); P[i].open = 0; }
}
static void cb_done(int id, ActError e, const char *fmt, ...)
{
    char b[4096] = ""; va_list ap; if (fmt) { va_start(ap, fmt); vsnprintf(b, sizeof b, fmt, ap); va_end(ap); }
    printf("EV DONE %d %d ", id, (int)e); hexs(b); printf("\n");
}
static char big[1 << 19];
static void cb_tele(int id, const char *fmt, ...)
{
    va_list ap; va_start(ap, fmt); vsnprintf(big, sizeof big, fmt, ap); va_end(ap);
    printf("EV TELE %d ", id); hexs(big); printf("\n");
}
static void cb_diag(int id, const char *fmt, ...)
{
    va_list ap; va_start(ap, fmt); vsnprintf(big, sizeof big, fmt, ap); va_end(ap);
    printf("EV DIAG %d ", id); hexs(big); printf("\n");
}
static int pos_of(ExecCtx *e)
{
    if (!e->cur) return -1;
    ListIterator it = list_iterator_create(e->block); Stmt *s; int k = 0, r = -1;
    while ((s = list_next(it))) { if (s == e->cur) { r = k; break; } k++; }
    list_iterator_destroy(it); return r;
}
static void dump(void)
{
    static unsigned char buf[MAX_DEV_BUF + 16];
    for (int i = 0; i < nd; i++) {
        Device *d = D[i]; int n;
        printf("DEV %d cs=%d li=%d fd=%d retry=%d lastretry=%lld lastping=%lld sconn=%d sacts=%d from=", i, d->connect_state, d->logged_in ? 1 : 0,
               d->fd != NO_FD, d->retry_count, (long long)d->last_retry.tv_sec * 1000000LL + d->last_retry.tv_usec,
               (long long)d->last_ping.tv_sec * 1000000LL + d->last_ping.tv_usec, d->stat_successful_connects, d->stat_successful_actions);
        n = cbuf_peek(d->from, buf, MAX_DEV_BUF); hexn(buf, n > 0 ? n : 0);
        printf(" to="); n = cbuf_peek(d->to, buf, MAX_DEV_BUF); hexn(buf, n > 0 ? n : 0);
        printf(" acts=");
        ListIterator it = list_iterator_create(d->acts); Action *a; int first = 1;
        if (list_count(d->acts) == 0) printf("-");
        while ((a = list_next(it))) {
            printf("%s%d:%d:%d:", first ? "" : "|", a->com, a->client_id, (int)a->errnum); first = 0;
            if (!timerisset(&a->time_stamp)) printf("-"); else printf("%lld", (long long)a->time_stamp.tv_sec * 1000000LL + a->time_stamp.tv_usec);
            printf(":");
            ListIterator ei = list_iterator_create(a->exec); ExecCtx *e; int f2 = 1;
            while ((e = list_next(ei))) {
                printf("%s%d/%d/%s/%s/", f2 ? "" : ";", pos_of(e), e->processing ? 1 : 0, e->plugitr ? "y" : "n", e->pluglist ? "y" : "n"); f2 = 0;
                if (!e->plugs) printf("NULL"); else if (list_count(e->plugs) == 0) printf("EMPTY");
                else { ListIterator pi = list_iterator_create(e->plugs); Plug *p; int f3 = 1; while ((p = list_next(pi))) { printf("%s", f3 ? "" : ","); hexs(p->name); f3 = 0; } list_iterator_destroy(pi); }
            }
            list_iterator_destroy(ei);
        }
        list_iterator_destroy(it);
        printf("\n");
    }
    for (int k = 0; k < nal; k++) {
        ArgListIterator ai = arglist_iterator_create(AL[k]); Arg *a; int first = 1;
        printf("ARGS %d ", k);
        while ((a = arglist_next(ai))) { printf("%s", first ? "" : ","); hexs(a->node); printf(":%d:%d:", a->state, a->result); hexs(a->val); first = 0; }
        if (first) printf("-");
        arglist_iterator_destroy(ai);
        printf("\n");
    }
}
static int unhex(const char *h, unsigned char *dst) { int n = 0; if (h[0] == '-') return 0; while (h[0] && h[1]) { unsigned x; sscanf(h, "%2x", &x); dst[n++] = x; h += 2; } return n; }
static hostlist_t hl_of(char *csv)
{
    hostlist_t hl = hostlist_create(NULL); unsigned char nm[4096];
    if (strcmp(csv, "-")) for (char *t = strtok(csv, ","); t; t = strtok(NULL, ",")) { int n = unhex(t, nm); nm[n] = 0; hostlist_push_host(hl, (char *)nm); }
    return hl;
}

int main(int argc, char **argv)
{
    static char line[1 << 20]; static unsigned char bytes[1 << 19];
    Device *dev; ListIterator itr;
    setvbuf(stdout, NULL, _IOFBF, 1 << 16);
    err_init(argv[0]);
    dev_init(argc > 2 && !strcmp(argv[2], "-Y"));
    cli_init();
    conf_init(argv[1]);
    itr = list_iterator_create(dev_devices);
    while ((dev = list_next(itr)) && nd < MAXD) {
        D[nd] = dev; P[nd].finish_ok = 1;
        if (dev->connect_state == DEV_CONNECTED) dev->disconnect(dev);
        dev->connect = stub_connect; dev->finish_connect = stub_finish; dev->disconnect = stub_disconnect; dev->preprocess = NULL;
        nd++;
    }
    list_iterator_destroy(itr);
    xpollfd_t pfd = xpollfd_create();
    now_us = 0;
    while (fgets(line, sizeof line, stdin)) {
        char w[32]; int i, n; long long t;
        line[strcspn(line, "\n")] = 0;
        if (sscanf(line, "NOW %lld", &t) == 1) now_us = t;
        else if (sscanf(line, "PLAN %d", &i) == 1) {
            char *p = line + 5; while (*p && *p != ' ') p++;
            for (char *tk = strtok(p, " "); tk; tk = strtok(NULL, " ")) if (P[i].np < 256) P[i].plans[P[i].np++] = !strcmp(tk, "now") ? 0 : !strcmp(tk, "pending") ? 1 : 2;
        }
        else if (sscanf(line, "FINISH %d %d", &i, &n) == 2) P[i].finish_ok = n;
        else if (sscanf(line, "FEED %d", &i) == 1) {
            char *p = strchr(line + 5, ' '); n = unhex(p + 1, bytes);
            if (D[i]->fd != NO_FD && P[i].open) feedq(i, bytes, n);
        }
        else if (sscanf(line, "PEERCLOSE %d", &i) == 1) { if (D[i]->fd != NO_FD && P[i].open) { close(P[i].far); P[i].open = 0; P[i].qn = 0; } }
        else if (!strcmp(line, "INIT")) { dev_initial_connect(); printf("ENDINIT\n"); }
        else if (!strncmp(line, "NEWARGS ", 8)) { hostlist_t hl = hl_of(line + 8); AL[nal++] = arglist_create(hl); hostlist_destroy(hl); }
        else if (!strncmp(line, "ENQ ", 4)) {
            int com, client, tele, args; static char tg[1 << 19];
            sscanf(line, "ENQ %d %d %d %d %s", &com, &client, &tele, &args, tg);
            hostlist_t hl = hl_of(tg);
            int c = dev_enqueue_actions(com, hl, cb_done, tele ? cb_tele : NULL, cb_diag, client, AL[args]);
            hostlist_destroy(hl);
            printf("COUNT %d\n", c);
        }
        else if (!strcmp(line, "PASS")) {
            struct timeval z = { 0, 0 }, tmo;
            for (i = 0; i < nd; i++) pushq(i);
            xpollfd_zero(pfd); dev_pre_poll(pfd); xpoll(pfd, &z);
            timerclear(&tmo);
            dev_post_poll(pfd, &tmo);
            for (i = 0; i < nd; i++) if (P[i].open) { n = read(P[i].far, bytes, sizeof bytes); if (n > 0) { printf("WROTE %d ", i); hexn(bytes, n); printf("\n"); } }
            if (timerisset(&tmo)) printf("TMO %lld\n", (long long)tmo.tv_sec * 1000000LL + tmo.tv_usec); else printf("TMO none\n");
            dump();
            printf("ENDPASS\n");
        }
        fflush(stdout);
    }
    return 0;
}
