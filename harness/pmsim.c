/* pmsim: the UNMODIFIED powermand sources (compiled from a scratch copy of /repo with -Dmain=pm_main)
 * linked with this virtual OS through -Wl,--wrap=...   (DESIGN §3.3)
 *
 * The daemon only ever blocks in poll().  Every poll() call is one ROUND: pmsim prints what the daemon
 * did since the previous round (trace lines) followed by a `POLL` line on stdout, then reads the events
 * of the next round from stdin up to `GO`, applies them, computes readiness by fixed rules and returns.
 * The environment (python: simulated devices, clients, faults, clock) therefore sits between any two
 * loop passes; the recorded event list replays the run exactly.
 *
 *   usage: pmsim <powerman.conf> [powermand options...]
 */
#undef main        /* the daemon sources are compiled with -Dmain=pm_main; not this file */
#define _GNU_SOURCE
#include <stdio.h>
#include <stdlib.h>
#include <string.h>
#include <errno.h>
#include <poll.h>
#include <fcntl.h>
#include <signal.h>
#include <unistd.h>
#include <stdarg.h>
#include <stdbool.h>
#include <malloc.h>
#include <netdb.h>
#include <sys/time.h>
#include <sys/socket.h>
#include <sys/wait.h>
#include <netinet/in.h>
#include <arpa/inet.h>

#include "list.h"
#include "hostlist.h"
#include "cbuf.h"
#include "xregex.h"
#include "xpoll.h"
#include "pluglist.h"
#include "arglist.h"
#include "device_private.h"

#define VBASE 1000
#define NV 256
#define INBUF (1 << 21)

enum kind { K_FREE = 0, K_SOCK /* tcp device socket */, K_LISTEN, K_CLIENT, K_PIPE /* daemon side of a coprocess pair */, K_PIPEH /* helper side: closed at once by the parent */ };
enum cstate { CS_NONE = 0, CS_INPROGRESS, CS_OK, CS_REFUSED_HUP, CS_REFUSED_SOERR };

struct vfd {
    enum kind k;
    int id;                     /* client number / connection number / listener number */
    int nonblock;
    int peer_closed;            /* EOF after the queued input */
    int err;                    /* POLLERR pending (reset) */
    int stalled;                /* peer does not read: writes accept nothing */
    int flood;                  /* peer sends without end: every read() finds more bytes */
    long wcap;                  /* total bytes the next writes may still accept, -1 = unlimited */
    enum cstate cs;             /* tcp connect progress */
    int soerr;
    unsigned char *in; int inlen;
};
static struct vfd V[NV];
static long long now_us = 1000000000LL;      /* virtual clock, microseconds */
static const long long T0 = 1000000000LL;
static int npending_conn;                     /* client connections waiting in the listener backlog */
static int nclients, nconns, nlisten, nkids_live;
static int next_pid = 50000;
static int stubborn;                          /* coprocess helpers ignore SIGTERM and only exit when their socket sees EOF */
static int pid_conn[4096];                    /* pid - 50000 -> vfd of the daemon's end of that helper's socketpair */
static int last_pipe_fd = -1;
static long rounds;
static FILE *out;

/* queue of outcomes for the next connect() calls on tcp sockets */
enum cplan { CP_INPROGRESS_OK = 0, CP_OK_NOW, CP_SYNCFAIL, CP_REFUSE_HUP, CP_REFUSE_SOERR, CP_INPROGRESS_PENDING };
static int cplan[1024], cplan_n, cplan_i, cplan_default = CP_INPROGRESS_OK;

#define IS(fd) ((fd) >= VBASE && (fd) < VBASE + NV)
static struct vfd *vf(int fd) { return &V[fd - VBASE]; }
static int vnew(enum kind k)
{
    for (int i = 0; i < NV; i++)
        if (V[i].k == K_FREE) {
            free(V[i].in); memset(&V[i], 0, sizeof(struct vfd)); V[i].k = k; V[i].wcap = -1; return VBASE + i;
        }
    fprintf(out, "FATAL out of virtual descriptors\n"); fflush(out); _exit(97);
}
static const char *kname(struct vfd *v)
{
    static char b[4][32]; static int r; r = (r + 1) & 3;
    switch (v->k) {
    case K_CLIENT: snprintf(b[r], 32, "c%d", v->id); break;
    case K_SOCK: case K_PIPE: snprintf(b[r], 32, "conn%d", v->id); break;
    case K_LISTEN: snprintf(b[r], 32, "L%d", v->id); break;
    case K_PIPEH: snprintf(b[r], 32, "h%d", v->id); break;
    default: snprintf(b[r], 32, "free"); }
    return b[r];
}
static void tr(const char *fmt, ...) { va_list ap; va_start(ap, fmt); vfprintf(out, fmt, ap); fputc('\n', out); va_end(ap); }
static void trhex(const char *tag, const char *who, const void *p, size_t n)
{
    fprintf(out, "%s %s ", tag, who);
    if (n == 0) fputc('-', out);
    for (size_t i = 0; i < n; i++) fprintf(out, "%02x", ((const unsigned char *)p)[i]);
    fputc('\n', out);
}
static int find_vfd(enum kind k1, enum kind k2, int id)
{
    for (int i = 0; i < NV; i++) if ((V[i].k == k1 || V[i].k == k2) && V[i].id == id) return VBASE + i;
    return -1;
}

/* ------------------------------------------------------------------ wrapped calls */
int __real_poll(struct pollfd *, nfds_t, int);
ssize_t __real_read(int, void *, size_t); ssize_t __real_write(int, const void *, size_t);
int __real_close(int); int __real_fcntl(int, int, ...);
int __real_setsockopt(int, int, int, const void *, socklen_t);
int __real_getsockopt(int, int, int, void *, socklen_t *);

int __wrap_gettimeofday(struct timeval *tv, void *tz) { tv->tv_sec = now_us / 1000000; tv->tv_usec = now_us % 1000000; return 0; }
time_t __wrap_time(time_t *t) { time_t x = now_us / 1000000; if (t) *t = x; return x; }

static struct sockaddr_in sa_tab[8];
static struct addrinfo ai_tab[8];
int __wrap_getaddrinfo(const char *node, const char *service, const struct addrinfo *hints, struct addrinfo **res)
{
    /* host names of the form "x<N>addr..." resolve to N addresses (1..4), anything else to one */
    static int slot;
    /* the resolver is a blocking call (name server time-outs last seconds): fine while the configuration is read, not once the select loop runs */
    if (rounds > 0) tr("BLOCKING getaddrinfo %s (called from inside the select loop)", node ? node : "-");
    int n = 1;
    if (node && node[0] == 'x' && node[1] >= '1' && node[1] <= '4') n = node[1] - '0';
    struct addrinfo *head = NULL, **tail = &head;
    for (int i = 0; i < n; i++) {
        struct sockaddr_in *sa = calloc(1, sizeof *sa); struct addrinfo *ai = calloc(1, sizeof *ai);
        sa->sin_family = AF_INET; sa->sin_port = htons(service ? atoi(service) : 0); sa->sin_addr.s_addr = htonl(0x7f000001 + i);
        if (node) strncpy((char *)sa->sin_zero, node, sizeof sa->sin_zero - 1);     /* lets CONNECT name the device's host */
        ai->ai_family = AF_INET; ai->ai_socktype = SOCK_STREAM; ai->ai_addr = (struct sockaddr *)sa; ai->ai_addrlen = sizeof *sa;
        *tail = ai; tail = &ai->ai_next;
    }
    *res = head; (void)slot; (void)sa_tab; (void)ai_tab;
    return 0;
}
void __wrap_freeaddrinfo(struct addrinfo *ai) { while (ai) { struct addrinfo *n = ai->ai_next; free(ai->ai_addr); free(ai); ai = n; } }
int __wrap_getnameinfo(const struct sockaddr *sa, socklen_t salen, char *host, socklen_t hostlen, char *serv, socklen_t servlen, int flags)
{
    if (flags & NI_NAMEREQD) return EAI_NONAME;
    if (host) snprintf(host, hostlen, "127.0.0.1");
    if (serv) snprintf(serv, servlen, "%d", ntohs(((const struct sockaddr_in *)sa)->sin_port));
    return 0;
}

int __wrap_socket(int d, int t, int p) { int fd = vnew(K_SOCK); vf(fd)->id = nconns++; tr("OPEN %s tcp", kname(vf(fd))); return fd; }
int __wrap_setsockopt(int fd, int l, int o, const void *v, socklen_t n) { return IS(fd) ? 0 : __real_setsockopt(fd, l, o, v, n); }
int __wrap_getsockopt(int fd, int l, int o, void *v, socklen_t *n)
{
    if (!IS(fd)) return __real_getsockopt(fd, l, o, v, n);
    if (o == SO_ERROR) { *(int *)v = vf(fd)->soerr; vf(fd)->soerr = 0; *n = sizeof(int); return 0; }
    errno = ENOPROTOOPT; return -1;
}
int __wrap_bind(int fd, const struct sockaddr *a, socklen_t l) { return 0; }
int __wrap_listen(int fd, int b) { nconns--; vf(fd)->k = K_LISTEN; vf(fd)->id = nlisten++; tr("LISTEN %s", kname(vf(fd))); return 0; }
int __wrap_accept(int fd, struct sockaddr *a, socklen_t *l)
{
    if (!npending_conn) { errno = EWOULDBLOCK; return -1; }
    npending_conn--;
    int c = vnew(K_CLIENT); vf(c)->id = nclients++;
    struct sockaddr_in *in = (struct sockaddr_in *)a; memset(in, 0, sizeof *in);
    in->sin_family = AF_INET; in->sin_port = htons(40000 + (vf(c)->id % 20000)); in->sin_addr.s_addr = htonl(INADDR_LOOPBACK); *l = sizeof *in;
    tr("ACCEPT %s", kname(vf(c)));
    return c;
}
int __wrap_connect(int fd, const struct sockaddr *a, socklen_t l)
{
    struct vfd *v = vf(fd);
    int plan = cplan_i < cplan_n ? cplan[cplan_i++] : cplan_default;
    const char *pn[] = { "inprogress-ok", "ok-now", "syncfail", "inprogress-refuse-hup", "inprogress-refuse-soerr", "inprogress-pending" };
    tr("CONNECT %s addr=%u plan=%s host=%.7s", kname(v), (unsigned)(ntohl(((const struct sockaddr_in *)a)->sin_addr.s_addr) - 0x7f000001), pn[plan],
       ((const struct sockaddr_in *)a)->sin_zero[0] ? (const char *)((const struct sockaddr_in *)a)->sin_zero : "-");
    /* a connect() on a descriptor that is still blocking parks the whole select loop for the kernel's SYN retries when the
       peer is silent: the virtual OS cannot block, it reports the call */
    if (!v->nonblock) tr("BLOCKING connect %s", kname(v));
    switch (plan) {
    case CP_OK_NOW: v->cs = CS_OK; return 0;
    case CP_SYNCFAIL: errno = ENETUNREACH; return -1;
    case CP_REFUSE_HUP: v->cs = CS_REFUSED_HUP; v->soerr = ECONNREFUSED; errno = EINPROGRESS; return -1;
    case CP_REFUSE_SOERR: v->cs = CS_REFUSED_SOERR; v->soerr = ECONNREFUSED; errno = EINPROGRESS; return -1;
    case CP_INPROGRESS_PENDING: v->cs = CS_INPROGRESS; errno = EINPROGRESS; return -1;
    default: v->cs = CS_OK; errno = EINPROGRESS; return -1;      /* completes by the next poll */
    }
}
int __wrap_fcntl(int fd, int cmd, ...)
{
    va_list ap; va_start(ap, cmd); long arg = va_arg(ap, long); va_end(ap);
    if (!IS(fd)) return __real_fcntl(fd, cmd, arg);
    if (cmd == F_GETFL) return vf(fd)->nonblock ? O_NONBLOCK : 0;
    if (cmd == F_SETFL) { vf(fd)->nonblock = !!(arg & O_NONBLOCK); return 0; }
    return 0;
}
int __wrap_socketpair(int d, int t, int p, int sv[2])
{
    sv[0] = vnew(K_PIPE); sv[1] = vnew(K_PIPEH); vf(sv[0])->id = vf(sv[1])->id = nconns++; vf(sv[0])->cs = CS_OK;
    last_pipe_fd = sv[0];
    tr("OPEN %s pipe", kname(vf(sv[0])));
    return 0;
}
static unsigned char kid_state[4096];          /* see __wrap_kill */
pid_t __wrap_fork(void) { nkids_live++; tr("FORK pid=%d live=%d", next_pid, nkids_live); if (next_pid - 50000 < 4096) { pid_conn[next_pid - 50000] = last_pipe_fd; kid_state[next_pid - 50000] = 1; } return next_pid++; }
/* children: 1 = running, 2 = on its way out (killed with SIGKILL, or a stubborn helper that has seen EOF on its socket): it can be reaped
   by a BLOCKING waitpid, or by any waitpid once the daemon has been through poll() again - a waitpid(WNOHANG) issued in the same breath as
   the kill finds it still there (signal delivery and exit are asynchronous), 3 = exited, reapable at once */
int __wrap_kill(pid_t pid, int sig)
{
    tr("KILL pid=%d sig=%d", pid, sig);
    if (pid >= 50000 && pid - 50000 < 4096 && kid_state[pid - 50000]) {
        int fd = pid_conn[pid - 50000];
        int sock_open = IS(fd) && vf(fd)->k == K_PIPE && !vf(fd)->peer_closed;
        if (sig == SIGKILL) { if (kid_state[pid - 50000] == 1) kid_state[pid - 50000] = 2; }
        else if (!stubborn) kid_state[pid - 50000] = 3;
        else if (!sock_open && kid_state[pid - 50000] == 1) kid_state[pid - 50000] = 2;     /* leaves when it reads EOF, in its own time */
    }
    return 0;
}
pid_t __wrap_waitpid(pid_t pid, int *st, int o)
{
    if ((o & WNOHANG) && pid >= 50000 && pid - 50000 < 4096 && kid_state[pid - 50000] && kid_state[pid - 50000] != 3) {
        tr("WAIT pid=%d WNOHANG: not yet", pid);
        return 0;
    }
    if (stubborn && pid >= 50000 && pid - 50000 < 4096) {
        int fd = pid_conn[pid - 50000];
        /* the helper ignored SIGTERM; it exits only when it reads EOF, i.e. when the daemon has closed its end */
        if (IS(fd) && vf(fd)->k == K_PIPE && !vf(fd)->peer_closed) { tr("HANG waitpid pid=%d (helper ignores SIGTERM, its socket is still open)", pid); fflush(out); _exit(98); }
    }
    if (pid >= 50000 && pid - 50000 < 4096) kid_state[pid - 50000] = 0;
    nkids_live--; if (st) *st = SIGTERM; tr("WAIT pid=%d live=%d", pid, nkids_live); return pid;
}

static int flood_reads;     /* reads served from a flooding peer since the last poll() */
ssize_t __wrap_read(int fd, void *buf, size_t n)
{
    if (!IS(fd)) return __real_read(fd, buf, n);
    struct vfd *v = vf(fd);
    if (v->k == K_FREE) { errno = EBADF; return -1; }
    if (v->err) { errno = ECONNRESET; return -1; }
    if (v->inlen == 0 && v->flood && !v->peer_closed) {
        /* a flooding peer: there is always more.  A loop that reads until EAGAIN never gets back to poll(): everybody else starves */
        if (++flood_reads > 200) { tr("HANG read-loop %s reads=%d (the peer keeps sending; the daemon never returned to poll)", kname(v), flood_reads); fflush(out); _exit(98); }
        size_t m = n < 1000 ? n : 1000;
        for (size_t i = 0; i < m; i++) ((unsigned char *)buf)[i] = (unsigned char)(33 + (i * 7 + flood_reads) % 90);
        tr("RD %s n=%zu req=%zu flood", kname(v), m, n);
        return m;
    }
    if (v->inlen == 0) { if (v->peer_closed) { tr("RD %s eof", kname(v)); return 0; } errno = EAGAIN; return -1; }
    size_t m = n < (size_t)v->inlen ? n : (size_t)v->inlen;
    memcpy(buf, v->in, m); memmove(v->in, v->in + m, v->inlen - m); v->inlen -= m;
    tr("RD %s n=%zu req=%zu", kname(v), m, n);
    return m;
}
ssize_t __wrap_write(int fd, const void *buf, size_t n)
{
    if (!IS(fd)) return __real_write(fd, buf, n);
    struct vfd *v = vf(fd);
    if (v->k == K_FREE) { errno = EBADF; return -1; }
    if (v->err || (v->peer_closed && v->k != K_CLIENT)) { errno = EPIPE; return -1; }
    if (v->k == K_CLIENT && v->peer_closed == 2) { errno = EPIPE; return -1; }   /* full close, not half close */
    size_t m = n;
    if (v->stalled) m = 0;
    else if (v->wcap >= 0) { if ((size_t)v->wcap < m) m = v->wcap; v->wcap -= m; }
    if (m == 0 && n > 0) {
        if (!v->nonblock) { tr("HANG blocking-write %s pending=%zu", kname(v), n); fflush(out); _exit(98); }
        errno = EAGAIN; return -1;
    }
    trhex("WR", kname(v), buf, m);
    return m;
}
int __wrap_close(int fd)
{
    if (!IS(fd)) return __real_close(fd);
    if (vf(fd)->k == K_FREE) { tr("CLOSE-BAD fd=%d", fd); errno = EBADF; return -1; }
    if (vf(fd)->k != K_PIPEH) tr("CLOSE %s", kname(vf(fd)));
    vf(fd)->k = K_FREE;
    return 0;
}

/* ------------------------------------------------------------------ the round protocol, inside poll */
static int unhex(const char *h, unsigned char *dst, int max)
{
    int n = 0;
    if (h[0] == '-') return 0;
    while (h[0] && h[1] && n < max) { unsigned x; sscanf(h, "%2x", &x); dst[n++] = x; h += 2; }
    return n;
}
static void push_in(int fd, const unsigned char *p, int n)
{
    struct vfd *v = vf(fd);
    v->in = realloc(v->in, v->inlen + n + 1); memcpy(v->in + v->inlen, p, n); v->inlen += n;
}
static void report_state(void)
{
    /* reconcile connection -> device through the daemon's own device list (private header of the scratch copy) */
    List devs = dev_getdevices(); if (!devs) return;
    ListIterator itr = list_iterator_create(devs); Device *d; int i = 0;
    while ((d = list_next(itr))) {
        fprintf(out, "DEV %d name=%s cs=%d li=%d fd=%s retry=%d conns=%d acts=%d queue=%d\n", i, d->name, d->connect_state, d->logged_in ? 1 : 0,
                IS(d->fd) ? kname(vf(d->fd)) : (d->fd == NO_FD ? "none" : "STALE"), d->retry_count, d->stat_successful_connects, d->stat_successful_actions, list_count(d->acts));
        i++;
    }
    list_iterator_destroy(itr);
}
static char line[2 * INBUF + 256];
static unsigned char tmpb[INBUF];
static int want_state = 1, want_mem;

static int compute_ready(struct pollfd *p, nfds_t n)
{
    /* readiness (fixed rules, DESIGN §3.3) */
    int ready = 0;
    for (nfds_t i = 0; i < n; i++) {
        p[i].revents = 0;
        int fd = p[i].fd;
        if (!IS(fd)) { struct pollfd q = { fd, p[i].events, 0 }; __real_poll(&q, 1, 0); p[i].revents = q.revents; }
        else {
            struct vfd *v = vf(fd);
            if (v->k == K_FREE) p[i].revents = POLLNVAL;
            else if (v->k == K_LISTEN) { if ((p[i].events & POLLIN) && npending_conn) p[i].revents |= POLLIN; }
            else if (v->k == K_SOCK && v->cs != CS_OK) {
                if (v->cs == CS_REFUSED_HUP) p[i].revents |= (p[i].events & (POLLIN | POLLOUT)) | POLLERR | POLLHUP;
                else if (v->cs == CS_REFUSED_SOERR) p[i].revents |= (p[i].events & POLLOUT);
                /* CS_INPROGRESS / CS_NONE: nothing */
            } else {
                if ((p[i].events & POLLIN) && (v->inlen > 0 || v->peer_closed || v->flood)) p[i].revents |= POLLIN;
                /* socketpair peer gone, or full close: HUP at once; tcp FIN / client half-close: only readable-EOF */
                if (v->peer_closed && (v->k == K_PIPE || v->peer_closed == 2)) p[i].revents |= POLLHUP;
                if (v->err) p[i].revents |= POLLERR;
                if ((p[i].events & POLLOUT) && !v->stalled && v->wcap != 0 && !(v->peer_closed && v->k != K_CLIENT)) p[i].revents |= POLLOUT;
            }
        }
        if (p[i].revents) ready++;
    }
    return ready;
}

int __wrap_poll(struct pollfd *p, nfds_t n, int tmo)
{
    flood_reads = 0;
    for (int ki = 0; ki < 4096; ki++) if (kid_state[ki] == 2) kid_state[ki] = 3;     /* time has passed: children on their way out are gone by now */
    rounds++;
    if (want_state) report_state();
    if (want_mem) { struct mallinfo2 mi = mallinfo2(); tr("MEM inuse=%zu", (size_t)mi.uordblks); }
    int open_fds = 0; for (int i = 0; i < NV; i++) if (V[i].k != K_FREE && V[i].k != K_PIPEH) open_fds++;
    /* descriptors already ready at entry: poll would return at once, no time passes */
    fprintf(out, "POLL round=%ld now=%lld timeout=%d ready=%d vfds=%d kids=%d interest=", rounds, now_us - T0, tmo, compute_ready(p, n), open_fds, nkids_live);
    for (nfds_t i = 0; i < n; i++) if (IS(p[i].fd)) fprintf(out, "%s%s:%s%s", i ? "," : "", vf(p[i].fd)->k == K_FREE ? "CLOSED" : kname(vf(p[i].fd)), (p[i].events & POLLIN) ? "r" : "", (p[i].events & POLLOUT) ? "w" : "");
    fputc('\n', out); fflush(out);

    /* events of this round */
    while (fgets(line, sizeof line, stdin)) {
        char w[64], a[64]; int k;
        line[strcspn(line, "\n")] = 0;
        if (!strcmp(line, "GO")) break;
        { long long d; if (sscanf(line, "ADV %lld", &d) == 1) { now_us += d; continue; } }
        if (!strcmp(line, "CONN")) { npending_conn++; continue; }
        if (sscanf(line, "SIG %63s", w) == 1) { raise(!strcmp(w, "INT") ? SIGINT : SIGTERM); continue; }
        if (sscanf(line, "PLANDEFAULT %63s", w) == 1) {
            cplan_default = !strcmp(w, "ok-now") ? CP_OK_NOW : !strcmp(w, "syncfail") ? CP_SYNCFAIL : !strcmp(w, "refuse-hup") ? CP_REFUSE_HUP : !strcmp(w, "refuse-soerr") ? CP_REFUSE_SOERR : !strcmp(w, "pending") ? CP_INPROGRESS_PENDING : CP_INPROGRESS_OK; continue; }
        if (sscanf(line, "PLAN %63s", w) == 1) {
            int v = !strcmp(w, "ok-now") ? CP_OK_NOW : !strcmp(w, "syncfail") ? CP_SYNCFAIL : !strcmp(w, "refuse-hup") ? CP_REFUSE_HUP : !strcmp(w, "refuse-soerr") ? CP_REFUSE_SOERR : !strcmp(w, "pending") ? CP_INPROGRESS_PENDING : CP_INPROGRESS_OK;
            if (cplan_n < 1024) cplan[cplan_n++] = v; continue; }
        if (sscanf(line, "%63s %63s", w, a) >= 2) {
            int fd = -1;
            if (a[0] == 'c' && a[1] != 'o') fd = find_vfd(K_CLIENT, K_CLIENT, atoi(a + 1));
            else if (!strncmp(a, "conn", 4)) fd = find_vfd(K_SOCK, K_PIPE, atoi(a + 4));
            if (fd < 0) { tr("IGNORED %.60s (no such open descriptor)", line); continue; }
            struct vfd *v = vf(fd);
            char *rest = line + strlen(w) + 1 + strlen(a); while (*rest == ' ') rest++;
            if (!strcmp(w, "IN")) { k = unhex(rest, tmpb, INBUF); push_in(fd, tmpb, k); }
            else if (!strcmp(w, "EOF")) v->peer_closed = 1;
            else if (!strcmp(w, "FULLCLOSE")) v->peer_closed = 2;
            else if (!strcmp(w, "RST")) v->err = 1;
            else if (!strcmp(w, "STALL")) v->stalled = atoi(rest);
            else if (!strcmp(w, "FLOOD")) v->flood = atoi(rest);
            else if (!strcmp(w, "WCAP")) v->wcap = atol(rest);
            else if (!strcmp(w, "CONNDONE")) { if (v->cs == CS_INPROGRESS) v->cs = !strcmp(rest, "refuse-hup") ? CS_REFUSED_HUP : !strcmp(rest, "refuse-soerr") ? CS_REFUSED_SOERR : CS_OK; if (v->cs != CS_OK) v->soerr = ECONNREFUSED; }
            else tr("IGNORED %.60s", line);
            continue;
        }
        tr("IGNORED %.60s", line);
    }
    if (feof(stdin)) { tr("STDIN-EOF"); fflush(out); raise(SIGTERM); }

    int nready = compute_ready(p, n);
    /* what this poll call returns (the input of the pass that follows): i=IN o=OUT h=HUP e=ERR n=NVAL */
    fprintf(out, "REV now=%lld", now_us - T0);
    for (nfds_t i = 0; i < n; i++) if (IS(p[i].fd) && p[i].revents) {
        short r = p[i].revents;
        fprintf(out, " %s:%s%s%s%s%s", vf(p[i].fd)->k == K_FREE ? "CLOSED" : kname(vf(p[i].fd)), (r & POLLIN) ? "i" : "", (r & POLLOUT) ? "o" : "",
                (r & POLLHUP) ? "h" : "", (r & POLLERR) ? "e" : "", (r & POLLNVAL) ? "n" : "");
    }
    fputc('\n', out);
    return nready;
}

int pm_main(int, char **);
static void on_abort(int sig) { fprintf(out, "EXIT ABORT sig=%d\n", sig); fflush(out); _exit(134); }
static void at_exit(void) { fprintf(out, "EXIT-CALLED\n"); fflush(out); }
int main(int argc, char **argv)
{
    out = stdout;
    static char obuf[1 << 16]; setvbuf(stdout, obuf, _IOFBF, sizeof obuf);
    if (getenv("PMSIM_MEM")) want_mem = 1;
    if (getenv("PMSIM_NOSTATE")) want_state = 0;
    if (getenv("PMSIM_STUBBORN")) stubborn = 1;
    if (getenv("PMSIM_PLAN")) {            /* outcomes of the connect() calls made before the first poll (dev_initial_connect) */
        char *s = strdup(getenv("PMSIM_PLAN"));
        for (char *w = strtok(s, ","); w && cplan_n < 1024; w = strtok(NULL, ","))
            cplan[cplan_n++] = !strcmp(w, "ok-now") ? CP_OK_NOW : !strcmp(w, "syncfail") ? CP_SYNCFAIL : !strcmp(w, "refuse-hup") ? CP_REFUSE_HUP : !strcmp(w, "refuse-soerr") ? CP_REFUSE_SOERR : !strcmp(w, "pending") ? CP_INPROGRESS_PENDING : CP_INPROGRESS_OK;
    }
    signal(SIGABRT, on_abort);
    atexit(at_exit);
    char *av[16]; int ac = 0;
    av[ac++] = "powermand"; av[ac++] = "-c"; av[ac++] = argv[1];
    for (int i = 2; i < argc && ac < 15; i++) av[ac++] = argv[i];
    av[ac] = NULL;
    int rc = pm_main(ac, av);
#if defined(__SANITIZE_ADDRESS__)
    {   /* heap objects that nothing points to any more after cli_fini / dev_fini / conf_fini (LeakSanitizer, testing only) */
        extern int __lsan_do_recoverable_leak_check(void);
        fflush(stderr);
        fprintf(out, "HEAPLEAK %d\n", __lsan_do_recoverable_leak_check() ? 1 : 0);
    }
#endif
    fprintf(out, "RETURN %d kids=%d\n", rc, nkids_live);
    for (int i = 0; i < NV; i++) if (V[i].k != K_FREE && V[i].k != K_PIPEH) fprintf(out, "LEAK %s\n", kname(&V[i]));
    fflush(out);
    _exit(0);
}
