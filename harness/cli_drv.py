#!/usr/bin/env python3
"""R-CLI driver (DESIGN §3.2, §5 C16): runs the REAL `powerman` client (built with ASan/UBSan from the scratch copy)
against a scripted server on a loopback socket.

The server side sends a chosen byte stream in chosen segments, half-closes (so the client sees end of file after the
last byte while its own writes still succeed), and drains what the client sends until the client goes away.
Observed: exit status, stdout, stderr, bytes the client sent, sanitizer report, killed-by-time-out.

API:  run_cases(binary, cases, workers=16, timeout=8.0) -> list of dict, same order
      case = dict(id=..., flags=[...], stream=bytes, cuts=[offsets at which a new segment starts])
"""
import os, socket, subprocess, threading, time, re, sys

SAN_ENV = {"ASAN_OPTIONS": "detect_leaks=0:exitcode=97:abort_on_error=0", "UBSAN_OPTIONS": "exitcode=97:print_stacktrace=1", "LC_ALL": "C"}


def _one(binary, lsock, port, case, timeout):
    env = dict(os.environ); env.update(SAN_ENV)
    p = subprocess.Popen(["timeout", "-s", "KILL", str(int(timeout)), binary, "-h", "127.0.0.1:%d" % port] + list(case["flags"]),
                         stdin=subprocess.DEVNULL, stdout=subprocess.PIPE, stderr=subprocess.PIPE, env=env)
    res = {}
    def pump():
        res["out"], res["err"] = p.communicate()
    t = threading.Thread(target=pump); t.start()
    got = b""
    conn = None
    try:
        lsock.settimeout(timeout)
        conn, _ = lsock.accept()
        conn.settimeout(timeout)
        conn.setsockopt(socket.IPPROTO_TCP, socket.TCP_NODELAY, 1)
        stream, pos = case["stream"], 0
        try:
            for cut in list(case.get("cuts", [])) + [len(stream)]:
                if cut > pos:
                    conn.sendall(stream[pos:cut]); pos = cut
            conn.shutdown(socket.SHUT_WR)
        except OSError:
            pass                    # the client has already gone (err_exit before reading everything)
        try:
            while True:
                d = conn.recv(65536)
                if not d:
                    break
                got += d
        except OSError:
            pass
    except OSError:
        pass                        # accept timed out: the client never connected (it is killed by its own time-out)
    t.join()
    if conn is not None:
        conn.close()
    rc = p.returncode
    err = res.get("err", b"")
    san = None
    m = re.search(rb"ERROR: AddressSanitizer: (\S+)", err)
    if m:
        f = re.search(rb"#\d+ 0x[0-9a-f]+ in (\w+) [^\n]*/(?:powerman|xread|xmalloc|hprintf|error)\.c:\d+", err)
        san = "asan:%s:%s" % (m.group(1).decode(), f.group(1).decode() if f else "?")
    else:
        m = re.search(rb"([\w./-]+\.c:\d+):\d+: runtime error: ([^\n]*)", err)
        if m:
            san = "ubsan:%s:%s" % (os.path.basename(m.group(1).decode()), m.group(2).decode()[:60])
    return dict(id=case["id"], rc=rc, killed=(rc in (137, -9, 124)), out=res.get("out", b""), err=err, sent=got, san=san)


def run_cases(binary, cases, workers=16, timeout=8.0):
    results = [None] * len(cases)
    idx = [0]
    lock = threading.Lock()
    def worker():
        ls = socket.socket(socket.AF_INET, socket.SOCK_STREAM)
        ls.setsockopt(socket.SOL_SOCKET, socket.SO_REUSEADDR, 1)
        ls.bind(("127.0.0.1", 0)); ls.listen(4)
        port = ls.getsockname()[1]
        while True:
            with lock:
                i = idx[0]; idx[0] += 1
            if i >= len(cases):
                break
            try:
                results[i] = _one(binary, ls, port, cases[i], timeout)
            except Exception as ex:         # never lose a case silently
                results[i] = dict(id=cases[i]["id"], rc=None, killed=False, out=b"", err=("driver error: %r" % (ex,)).encode(), sent=b"", san="driver-error")
        ls.close()
    ts = [threading.Thread(target=worker) for _ in range(max(1, min(workers, len(cases))))]
    for t in ts: t.start()
    for t in ts: t.join()
    return results


if __name__ == "__main__":
    # manual use: cli_drv.py <binary> <flags,comma> <streamhex>
    r = run_cases(sys.argv[1], [dict(id="x", flags=[f for f in sys.argv[2].split(",") if f], stream=bytes.fromhex(sys.argv[3]), cuts=[])], workers=1)[0]
    print("rc", r["rc"], "killed", r["killed"], "san", r["san"]); print("stdout", r["out"]); print("stderr", r["err"][-2000:]); print("sent", r["sent"])
