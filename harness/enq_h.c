/* R-ENQ: dev_check_actions / dev_enqueue_actions of the scratch copy's device.c on a configuration
 * loaded by the real parser.  argv[1] = powerman.conf; stdin: `REQ <com> <hostlist expr>` lines.
 * Output: DEVTAB lines (the device table as the C holds it), then per request one RES line. */
#undef main
#include "device.c"
#include "parse_util.h"
#include <stdio.h>

static void cb_done(int id, ActError e, const char *fmt, ...) { }
static void cb_diag(int id, const char *fmt, ...) { }
static void hex(const char *s) { if (!s) { printf("-"); return; } if (!*s) printf("-"); for (; *s; s++) printf("%02x", (unsigned char)*s); }

int main(int argc, char **argv)
{
    char line[1 << 16];
    Device *dev; ListIterator itr; int i;

    err_init(argv[0]);
    dev_init(false);
    cli_init();
    conf_init(argv[1]);

    itr = list_iterator_create(dev_devices); i = 0;
    while ((dev = list_next(itr))) {
        PlugListIterator pi; Plug *p; int k, first = 1;
        printf("DEVTAB %d ", i++); hex(dev->name); printf(" scripts=");
        for (k = 0; k < NUM_SCRIPTS; k++) if (dev->scripts[k]) { printf("%s%d", first ? "" : ",", k); first = 0; }
        printf(" plugs="); first = 1;
        pi = pluglist_iterator_create(dev->plugs);
        while ((p = pluglist_next(pi))) { printf("%s", first ? "" : ","); hex(p->name); printf(":"); hex(p->node); first = 0; }
        pluglist_iterator_destroy(pi);
        printf("\n");
    }
    list_iterator_destroy(itr);
    { hostlist_iterator_t it = hostlist_iterator_create(conf_getnodes()); char *n; int first = 1; printf("NODES ");
      while ((n = hostlist_next(it))) { printf("%s", first ? "" : ","); hex(n); first = 0; free(n); } hostlist_iterator_destroy(it); printf("\n"); }

    while (fgets(line, sizeof line, stdin)) {
        int com; char expr[1 << 15];
        if (sscanf(line, "REQ %d %32767s", &com, expr) != 2) continue;
        hostlist_t hl = hostlist_create(expr);
        if (!hl) { printf("RES badhl\n"); continue; }
        ArgList al = arglist_create(hl);
        int ok = dev_check_actions(com, hl) ? 1 : 0;
        int total = dev_enqueue_actions(com, hl, cb_done, NULL, cb_diag, 7, al);
        printf("RES check=%d total=%d q=", ok, total);
        itr = list_iterator_create(dev_devices); i = 0;
        while ((dev = list_next(itr))) {
            Action *act;
            while ((act = list_dequeue(dev->acts))) {
                ExecCtx *e = list_peek(act->exec);
                printf("%d:%d:", i, act->com);
                if (!e->plugs) printf("NULL");
                else {
                    ListIterator pi = list_iterator_create(e->plugs); Plug *p; int first = 1;
                    if (list_count(e->plugs) == 0) printf("EMPTY");
                    while ((p = list_next(pi))) { printf("%s", first ? "" : ","); hex(p->name); first = 0; }
                    list_iterator_destroy(pi);
                }
                printf(";");
                _destroy_action(act);
            }
            i++;
        }
        list_iterator_destroy(itr);
        printf("\n");
        arglist_unlink(al);
        hostlist_destroy(hl);
    }
    return 0;
}
