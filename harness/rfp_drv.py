"""C19 / R-RFP implementation side: drives the REAL `redfishpower --test-mode` of the scratch copy over pipes.

One Helper = one process (always under `timeout -s KILL`), fed one line at a time; after every line the output
up to the next prompt is collected (the helper only reads stdin when its three command lists are empty, so the
prompt is the completion signal).  A prompt that does not come back within `limit` seconds is reported as such
(the helper is then killed), an EOF as process death with its exit status and stderr (assert / sanitizer text).
The short option -E is declared without an argument in OPTIONS: only --test-fail-power-cmd-hosts= works.
"""
import os, subprocess, select, time, tempfile, signal

PROMPT = b"redfishpower> "


def build(ctx):
    """one compile line for the helper (sanitizers on) from the scratch copy, as src/redfishpower/Makefile.am lists it"""
    r = ctx.repo
    srcs = [r + "/src/redfishpower/redfishpower.c", r + "/src/redfishpower/plugs.c",
            r + "/src/libczmq/zhashx.c", r + "/src/libczmq/zlistx.c", r + "/src/libczmq/czmq_internal.c",
            r + "/src/liblsd/hostlist.c", r + "/src/liblsd/list.c", r + "/src/liblsd/hash.c",
            r + "/src/libcommon/xmalloc.c", r + "/src/libcommon/error.c", r + "/src/libcommon/argv.c"]
    return ctx.cc(srcs, "redfishpower_san", extra=["-I" + r + "/src/libczmq", "-lcurl", "-ljansson"])


class Helper:
    def __init__(self, exe, hosts, fail=None, verbose=False, life=120, errdir=None):
        a = ["timeout", "-s", "KILL", str(life), exe, "-h", hosts, "--test-mode"]
        if fail:
            a.append("--test-fail-power-cmd-hosts=" + fail)
        if verbose:
            a.append("-vv")
        self.err = tempfile.TemporaryFile(dir=errdir)
        env = dict(os.environ, ASAN_OPTIONS="detect_leaks=0:abort_on_error=0", UBSAN_OPTIONS="print_stacktrace=1")
        self.p = subprocess.Popen(a, stdin=subprocess.PIPE, stdout=subprocess.PIPE, stderr=self.err, bufsize=0, env=env,
                                  start_new_session=True)   # own process group: kill() reaches `timeout` AND the helper
        self.buf = b""
        self.dead = None          # None | "hang" | "exit:<status>"
        self.first = self._read(10.0)

    def _read(self, limit):
        """output up to the next prompt; None when it does not come (self.dead says why)"""
        end = time.time() + limit
        fd = self.p.stdout.fileno()
        while not self.buf.endswith(PROMPT):
            left = end - time.time()
            r = select.select([fd], [], [], max(0.0, left))[0] if left > 0 else []
            if not r:
                self.dead = "hang"
                self.kill()
                return None
            d = os.read(fd, 65536)
            if not d:
                rc = self.p.wait()
                self.dead = "exit:%d" % rc
                return None
            self.buf += d
        out = self.buf[:-len(PROMPT)]
        self.buf = b""
        return out.decode("latin-1")

    def cmd(self, line, limit=5.0):
        if self.dead:
            return None
        try:
            self.p.stdin.write(line.encode("latin-1") + b"\n")
        except (BrokenPipeError, OSError):
            self.dead = "exit:%s" % self.p.wait()
            return None
        return self._read(limit)

    def quit(self, limit=5.0):
        """`quit`: the helper must leave with status 0; returns the exit status (None = did not exit)"""
        if self.dead:
            return None
        try:
            self.p.stdin.write(b"quit\n")
            rc = self.p.wait(timeout=limit)
        except (BrokenPipeError, OSError):
            rc = self.p.wait()
        except subprocess.TimeoutExpired:
            self.kill()
            return None
        self.dead = "exit:%d" % rc
        return rc

    def partial(self):
        return self.buf.decode("latin-1")

    def stderr_text(self):
        try:
            self.err.seek(0)
            return self.err.read().decode("latin-1")[-3000:]
        except (OSError, ValueError):
            return ""

    def kill(self):
        try:
            os.killpg(self.p.pid, signal.SIGKILL)
        except OSError:
            pass
        try:
            self.p.kill()
        except OSError:
            pass
        try:
            self.p.wait(timeout=5)
        except subprocess.TimeoutExpired:
            pass

    def close(self):
        if self.p.poll() is None:
            self.kill()
        for f in (self.p.stdin, self.p.stdout):
            try:
                f.close()
            except OSError:
                pass
        try:
            self.err.close()
        except OSError:
            pass
