/* R-HL implementation side: executes op sequences on the REAL hostlist.c of the scratch copy (reached by
 * #include, so statics and the internal range array are visible) and prints, for every op, its result and the
 * full internal state of the lists it touched.  One forked child per case: a sanitizer report, an assert, a
 * fatal-hook call or a time-out becomes the case's outcome line ("! MemErr|UB|Abort|Exit|Hang|Crash ...").
 *
 * input   case <id> <timeout_ms>
 *         <op> ...            (see run_op)
 *         end
 * output  case <id>
 *         r <result>          one per op
 *         = <slot> ...        state of each touched slot after the op
 *         ! <outcome>         only if the case did not run to completion
 *         end
 */
#include <stdio.h>
#include <stdlib.h>
#include <string.h>
#include <unistd.h>
#include <signal.h>
#include <sys/time.h>
#include <sys/wait.h>

/* libc qsort is replaced by the insertion sort the model defines (the comparator rewrites width fields, so
 * the comparison sequence is observable); op Q runs the genuine qsort on a copy. */
static void (*real_qsort)(void *, size_t, size_t, int (*)(const void *, const void *)) = qsort;
static int use_libc_qsort = 0;
static void hl_qsort(void *base, size_t n, size_t sz, int (*cmp)(const void *, const void *))
{
    if (use_libc_qsort) { real_qsort(base, n, sz, cmp); return; }
    void **a = (void **)base;
    if (sz != sizeof(void *)) abort();
    for (size_t i = 1; i < n; i++)
        for (size_t j = i; j > 0 && cmp(&a[j - 1], &a[j]) > 0; j--) { void *t = a[j - 1]; a[j - 1] = a[j]; a[j] = t; }
}
#define qsort hl_qsort
#include "hostlist.c"
#undef qsort

void lsd_fatal_error(char *file, int line, char *mesg) { printf("! Exit fatal-hook %s:%d\n", file, line); fflush(stdout); _exit(71); }
void *lsd_nomem_error(char *file, int line, char *mesg) { printf("! Exit nomem-hook %s:%d\n", file, line); fflush(stdout); _exit(72); }

#define NSLOT 4
#define NITER 8
static hostlist_t L[NSLOT];
static hostlist_iterator_t IT[NSLOT][NITER];
static int nit[NSLOT];

static void phex(const char *s) { if (!*s) { putchar('-'); return; } for (; *s; s++) printf("%02x", (unsigned char)*s); }
static char *unhex(const char *h)
{
    size_t n = strcmp(h, "-") == 0 ? 0 : strlen(h) / 2;
    char *s = malloc(n + 1);
    for (size_t i = 0; i < n; i++) { unsigned v; sscanf(h + 2 * i, "%2x", &v); s[i] = (char)v; }
    s[n] = 0;
    return s;
}

static void dump(int d)
{
    hostlist_t hl = L[d];
    if (!hl) { printf("= %d null\n", d); return; }
    printf("= %d %d %d", d, hl->nhosts, hl->nranges);
    for (int i = 0; i < hl->nranges; i++) {
        hostrange_t r = hl->hr[i];
        printf(" | "); phex(r->prefix); printf(" %lu %lu %d %d", r->lo, r->hi, r->width, (int)r->singlehost);
    }
    for (int k = 0; k < nit[d]; k++) {
        hostlist_iterator_t i = IT[d][k];
        hostrange_t slot = (i->idx >= 0 && i->idx < hl->size) ? hl->hr[i->idx] : NULL;
        /* synced: the cached pointer is what the array holds at idx; a NULL cache over a live slot is "stale" */
        int stale = (i->hr == NULL && slot != NULL);
        int other = (i->hr != slot && !stale);
        printf(" ; %d %d %d", i->idx, i->depth, stale ? 1 : other ? 2 : 0);
    }
    printf("\n");
}

static void drop(int d)
{
    if (L[d]) hostlist_destroy(L[d]);     /* destroys its iterators too */
    L[d] = NULL; nit[d] = 0;
}

static char bigbuf[4 << 20];

static void run_op(char *line)
{
    static char a[3][1 << 18]; char op[8] = "";
    a[0][0] = a[1][0] = a[2][0] = 0;
    int n = sscanf(line, "%7s %262143s %262143s %262143s", op, a[0], a[1], a[2]);
    if (!strcmp(op, "WS")) {   /* exhaustive sweep of _width_equiv (and through it _zero_padded): count and FNV hash of all answers */
        unsigned long nlo, nhi, mlo, mhi, cnt = 0, h = 1469598103934665603UL;
        sscanf(line, "WS %lu %lu %lu %lu", &nlo, &nhi, &mlo, &mhi);
        for (unsigned long x = nlo; x < nhi; x++) for (unsigned long y = mlo; y < mhi; y++)
            for (int wn = 0; wn <= 6; wn++) for (int wm = 0; wm <= 6; wm++) {
                int a1 = wn, b1 = wm; int rc = _width_equiv(x, &a1, y, &b1);
                h = (h ^ (unsigned long)(rc * 64 + a1 * 8 + b1)) * 1099511628211UL; cnt++;
            }
        printf("r %lu %lu\n", cnt, h); return;
    }
    int d = n > 1 ? atoi(a[0]) : 0;
    if (d < 0 || d >= NSLOT) { printf("r badslot\n"); return; }
    int touched2 = -1;
#define NEEDLIST if (!L[d]) { printf("r nolist\n"); dump(d); return; }
    if (!strcmp(op, "C")) { char *s = unhex(a[1]); drop(d); L[d] = hostlist_create(s); free(s); printf(L[d] ? "r ok\n" : "r null\n"); }
    else if (!strcmp(op, "CN")) { drop(d); L[d] = hostlist_create(NULL); printf("r ok\n"); }
    else if (!strcmp(op, "P")) { NEEDLIST; char *s = unhex(a[1]); printf("r %d\n", hostlist_push(L[d], s)); free(s); }
    else if (!strcmp(op, "H")) { NEEDLIST; char *s = unhex(a[1]); printf("r %d\n", hostlist_push_host(L[d], s)); free(s); }
    else if (!strcmp(op, "L")) { int s = atoi(a[1]); touched2 = s;
        if (s < 0 || s >= NSLOT || !L[d] || !L[s] || s == d) { printf("r nolist\n"); } else printf("r %d\n", hostlist_push_list(L[d], L[s])); }
    else if (!strcmp(op, "Y")) { int s = atoi(a[1]); touched2 = s;
        if (s < 0 || s >= NSLOT || !L[s]) { printf("r nolist\n"); } else { hostlist_t c = hostlist_copy(L[s]); drop(d); L[d] = c; printf("r ok\n"); } }
    else if (!strcmp(op, "D")) { NEEDLIST; char *s = unhex(a[1]); printf("r %d\n", hostlist_delete_host(L[d], s)); free(s); }
    else if (!strcmp(op, "N")) { NEEDLIST; printf("r %d\n", hostlist_delete_nth(L[d], atoi(a[1]))); }
    else if (!strcmp(op, "F")) { NEEDLIST; char *s = unhex(a[1]); printf("r %d\n", hostlist_find(L[d], s)); free(s); }
    else if (!strcmp(op, "T")) { NEEDLIST; char *s = hostlist_nth(L[d], atoi(a[1])); printf("r "); if (s) { phex(s); free(s); } else printf("nil"); printf("\n"); }
    else if (!strcmp(op, "K")) { NEEDLIST; printf("r %d\n", hostlist_count(L[d])); }
    else if (!strcmp(op, "S")) { NEEDLIST; hostlist_sort(L[d]); printf("r ok\n"); }
    else if (!strcmp(op, "Q")) { NEEDLIST;
        hostlist_t c = hostlist_copy(L[d]); use_libc_qsort = 1; hostlist_sort(c); use_libc_qsort = 0;
        hostlist_iterator_t i = hostlist_iterator_create(c); char *s; printf("r");
        while ((s = hostlist_next(i))) { printf(" "); phex(s); free(s); }
        printf("\n"); hostlist_iterator_destroy(i); hostlist_destroy(c); }
    else if (!strcmp(op, "R")) { NEEDLIST; size_t sz = strtoul(a[1], NULL, 10);
        if (sz == 0) { ssize_t rc = hostlist_ranged_string(L[d], sizeof bigbuf, bigbuf); printf("r %ld ", (long)rc); phex(bigbuf); printf("\n"); }
        else { char *b = malloc(sz); memset(b, 'X', sz); ssize_t rc = hostlist_ranged_string(L[d], sz, b); printf("r %ld ", (long)rc); b[sz - 1] = 0; phex(b); printf("\n"); free(b); } }
    else if (!strcmp(op, "RT")) { int e = atoi(a[1]); touched2 = e;
        if (e < 0 || e >= NSLOT || !L[d]) { printf("r nolist\n"); }
        else { ssize_t rc = hostlist_ranged_string(L[d], sizeof bigbuf, bigbuf); hostlist_t c = (rc < 0) ? NULL : hostlist_create(bigbuf);
               if (e != d) drop(e); else { drop(d); } L[e] = c; printf("r %d ", c ? 0 : -1); phex(bigbuf); printf("\n"); } }
    else if (!strcmp(op, "IC")) { NEEDLIST; if (nit[d] >= NITER) printf("r nolist\n"); else { IT[d][nit[d]++] = hostlist_iterator_create(L[d]); printf("r ok\n"); } }
    else if (!strcmp(op, "IN")) { NEEDLIST; int k = atoi(a[1]), m = atoi(a[2]);
        if (k < 0 || k >= nit[d]) printf("r nolist\n");
        else { int ended = 0; printf("r"); for (int j = 0; j < m; j++) { char *s = hostlist_next(IT[d][k]); if (!s) { ended = 1; break; } printf(" "); phex(s); free(s); } printf(ended ? " $\n" : " .\n"); } }
    else if (!strcmp(op, "IR")) { NEEDLIST; int k = atoi(a[1]); if (k < 0 || k >= nit[d]) printf("r nolist\n"); else { hostlist_iterator_reset(IT[d][k]); printf("r ok\n"); } }
    else if (!strcmp(op, "ID")) { NEEDLIST; int k = atoi(a[1]); if (k < 0 || k >= nit[d]) printf("r nolist\n");
        else { hostlist_iterator_destroy(IT[d][k]); for (int j = k; j + 1 < nit[d]; j++) IT[d][j] = IT[d][j + 1]; nit[d]--; printf("r ok\n"); } }
    else { printf("r badop\n"); return; }
    dump(d);
    if (touched2 >= 0 && touched2 < NSLOT && touched2 != d) dump(touched2);
}

static char *lines[4096];
int main(void)
{
    static char line[1 << 20];
    signal(SIGPIPE, SIG_IGN);
    while (fgets(line, sizeof line, stdin)) {
        char id[256]; long tmo = 10000;
        line[strcspn(line, "\n")] = 0;
        if (sscanf(line, "case %255s %ld", id, &tmo) < 1) continue;
        /* a change that makes an operation spin would otherwise cost the full budget on every case: after a few hangs
           the property is violated anyway, the remaining cases only get a short budget */
        static int nhang; if (nhang >= 6 && tmo > 300) tmo = 300;
        int nl = 0;
        while (fgets(line, sizeof line, stdin)) {
            line[strcspn(line, "\n")] = 0;
            if (!strcmp(line, "end")) break;
            if (nl < 4096) lines[nl++] = strdup(line);
        }
        printf("case %s\n", id); fflush(stdout);
        int ep[2]; if (pipe(ep)) return 3;
        pid_t pid = fork();
        if (pid == 0) {
            close(ep[0]); dup2(ep[1], 2); close(ep[1]);
            struct itimerval it = { {0, 0}, { tmo / 1000, (tmo % 1000) * 1000 } };
            signal(SIGALRM, SIG_DFL); setitimer(ITIMER_REAL, &it, NULL);
            for (int i = 0; i < nl; i++) { run_op(lines[i]); fflush(stdout); }
            fflush(stdout); _exit(0);
        }
        close(ep[1]);
        static char err[65536]; size_t el = 0; ssize_t r;
        while ((r = read(ep[0], err + el, sizeof err - 1 - el)) > 0) { el += r; if (el >= sizeof err - 1) { char sink[4096]; while (read(ep[0], sink, sizeof sink) > 0) {} break; } }
        err[el] = 0; close(ep[0]);
        int st = 0; waitpid(pid, &st, 0);
        if (WIFSIGNALED(st) && WTERMSIG(st) == SIGALRM) { printf("! Hang\n"); nhang++; }
        else if (strstr(err, "runtime error:") && strstr(err, "null pointer")) printf("! MemErr UBSan: null pointer dereference\n");
        else if (strstr(err, "runtime error:")) { char *p = strstr(err, "runtime error:"); p[strcspn(p, "\n")] = 0; printf("! UB %s\n", p); }
        else if (strstr(err, "AddressSanitizer")) { char *p = strstr(err, "AddressSanitizer"); p[strcspn(p, "\n")] = 0; printf("! MemErr %.160s\n", p); }
        else if (WIFSIGNALED(st) && WTERMSIG(st) == SIGABRT) { char *p = strstr(err, "Assertion"); if (p) p[strcspn(p, "\n")] = 0; printf("! Abort %.160s\n", p ? p : ""); }
        else if (WIFSIGNALED(st) && WTERMSIG(st) == SIGSEGV) printf("! MemErr SEGV\n");
        else if (WIFEXITED(st) && (WEXITSTATUS(st) == 71 || WEXITSTATUS(st) == 72)) { /* "! Exit" already printed by the hook */ }
        else if (!(WIFEXITED(st) && WEXITSTATUS(st) == 0)) printf("! Crash status=%d\n", st);
        printf("end\n"); fflush(stdout);
        for (int i = 0; i < nl; i++) free(lines[i]);
    }
    return 0;
}
