/* R-XPOLL: the scratch copy's xpoll() with poll() and gettimeofday() replaced (-Wl,--wrap): every call of poll is
 * interrupted (EINTR) as long as the case supplies clock readings, then returns 0.
 * stdin: one case per line:  <tv_usec|-> <start_usec> <clock reading at EINTR #1> <#2> ...
 * stdout: the time-outs (ms) handed to the successive poll() calls */
#undef main
#define _GNU_SOURCE
#include <stdio.h>
#include <stdlib.h>
#include <string.h>
#include <errno.h>
#include <poll.h>
#include <sys/time.h>
#include "xpoll.h"

static long long clk[64]; static int nclk, iclk;     /* successive gettimeofday answers */
static int nintr, iintr;
int __wrap_gettimeofday(struct timeval *tv, void *tz)
{
    long long t = clk[iclk < nclk ? iclk++ : nclk - 1];
    tv->tv_sec = t / 1000000; tv->tv_usec = t % 1000000; return 0;
}
int __wrap_poll(struct pollfd *p, nfds_t n, int tmo)
{
    printf(" %d", tmo);
    if (iintr < nintr) { iintr++; errno = EINTR; return -1; }
    return 0;
}
int main(void)
{
    char line[4096];
    while (fgets(line, sizeof line, stdin)) {
        char *tok = strtok(line, " \n"); if (!tok) continue;
        struct timeval tv, *tvp = NULL;
        if (strcmp(tok, "-")) { long long t = atoll(tok); tv.tv_sec = t / 1000000; tv.tv_usec = t % 1000000; tvp = &tv; }
        nclk = 0; iclk = 0; iintr = 0;
        while ((tok = strtok(NULL, " \n")) && nclk < 64) clk[nclk++] = atoll(tok);
        nintr = nclk > 0 ? nclk - 1 : 0;
        if (!tvp) nintr = nclk;          /* without a time-out xpoll never reads the clock */
        xpollfd_t pfd = xpollfd_create();
        printf("T");
        xpoll(pfd, tvp);
        printf("\n");
        xpollfd_destroy(pfd);
    }
    return 0;
}
