/* R-CBUF, implementation side: drives the real src/liblsd/cbuf.c (included, so the struct is visible) through
 * op sequences read from stdin and prints, per op, the return values, the bytes delivered, the dropped count
 * and (size, used, i_in, i_out, i_rep, got_wrap).  read()/write() inside cbuf.c are redirected to a scripted
 * descriptor so that short reads, short writes, EOF and EAGAIN are chosen by the case.
 *
 * case line:   <id> <minsize> <maxsize> | op | op | ...
 *   w <hex>            cbuf_write (cb, bytes, n, &dropped)                 -> w ret dropped
 *   W <n> <seed>       same with the n pattern bytes pat(seed, 0..n-1)     -> W ret dropped
 *   p <n>              cbuf_peek                                           -> p ret hex
 *   r <n>              cbuf_read                                           -> r ret hex
 *   d <n>              cbuf_drop                                           -> d ret
 *   l <len> <lines>    cbuf_read_line (cb, buf[len], len, lines)           -> l ret hex nul_ok
 *   k <len> <lines>    cbuf_peek_line                                      -> k ret hex nul_ok
 *   f <len> <script>   cbuf_write_from_fd (cb, fd, len, &dropped); script = comma list of +hex (data available
 *                      to the next read()s), e (EAGAIN), z (EOF), or - (empty)   -> f ret dropped nconsumed
 *   t <len> <script>   cbuf_read_to_fd (cb, fd, len); script = comma list of accept counts (negative: error)
 *                      or -                                                -> t ret hex
 *   x                  cbuf_flush                                          -> x
 *   u                  cbuf_used / cbuf_free / cbuf_is_empty               -> u used free empty
 *   o <v>              cbuf_opt_set (cb, CBUF_OPT_OVERWRITE, v)            -> o ret
 * output: "C <id> <created>" then one line per op: "<result> ; size used i_in i_out i_rep got_wrap".
 * Every case runs in a forked child; "! <id> <wait status>" is printed when the child did not exit 0
 * (assert -> SIGABRT, sanitizer report -> exit 1). */
#include <stdio.h>
#include <stdlib.h>
#include <string.h>
#include <errno.h>
#include <unistd.h>
#include <sys/types.h>
#include <sys/wait.h>

static ssize_t fake_read(int fd, void *buf, size_t n);
static ssize_t fake_write(int fd, const void *buf, size_t n);
#define read fake_read
#define write fake_write
#include "cbuf.c"
#undef read
#undef write

void lsd_fatal_error(char *f, int l, char *m) { fprintf(stderr, "lsd_fatal_error %s:%d %s\n", f, l, m); abort(); }
void *lsd_nomem_error(char *f, int l, char *m) { fprintf(stderr, "lsd_nomem_error %s:%d %s\n", f, l, m); abort(); return NULL; }

#include "cbuf_fakefd.h"

static void state(cbuf_t cb)
{
    printf(" ; %d %d %d %d %d %d\n", cb->size, cb->used, cb->i_in, cb->i_out, cb->i_rep, cb->got_wrap ? 1 : 0);
}

static void run_case(char *line)
{
    char *save = NULL;
    char *hdr = strtok_r(line, "|", &save);
    char id[64]; int mn, mx;
    if (sscanf(hdr, "%63s %d %d", id, &mn, &mx) != 3) { printf("? bad header\n"); return; }
    cbuf_t cb = cbuf_create(mn, mx);
    printf("C %s %d\n", id, cb ? 1 : 0);
    if (!cb) return;
    char *op;
    while ((op = strtok_r(NULL, "|", &save))) {
        char c; char a1[32] = "", a2[32] = ""; char *big = NULL;
        while (*op == ' ') op++;
        c = *op;
        if (!c || c == '\n') continue;
        if (c == 'w') {
            size_t n; unsigned char *b = unhex(op + 1, &n); int dr = -99;
            int r = cbuf_write(cb, b, (int)n, &dr);
            printf("w %d %d", r, dr); free(b);
        } else if (c == 'W') {
            int n, seed; sscanf(op + 1, "%d %d", &n, &seed);
            unsigned char *b = malloc(n + 1); for (int k = 0; k < n; k++) b[k] = pat(seed, k);
            int dr = -99; int r = cbuf_write(cb, b, n, &dr);
            printf("W %d %d", r, dr); free(b);
        } else if (c == 'p' || c == 'r') {
            int n; sscanf(op + 1, "%d", &n);
            unsigned char *b = malloc(n > 0 ? n : 1);
            int r = (c == 'p') ? cbuf_peek(cb, b, n) : cbuf_read(cb, b, n);
            printf("%c %d ", c, r); puthex(b, r > 0 ? r : 0); free(b);
        } else if (c == 'd') {
            int n; sscanf(op + 1, "%d", &n);
            printf("d %d", cbuf_drop(cb, n));
        } else if (c == 'l' || c == 'k') {
            int len, lines; sscanf(op + 1, "%d %d", &len, &lines);
            int cap = len > 0 ? len : 0;
            unsigned char *b = malloc(cap + 1);           /* exactly len bytes usable: ASan sees an overrun */
            memset(b, 0xAA, cap + 1);
            int r = (c == 'l') ? cbuf_read_line(cb, (char *)b, len, lines) : cbuf_peek_line(cb, (char *)b, len, lines);
            int m = 0, ok = 1;
            if (r > 0 && len > 0) {
                m = r < len - 1 ? r : len - 1;
                ok = (b[m] == 0);
                for (int k = m + 1; k < cap; k++) if (b[k] != 0xAA) ok = 0;
            } else {
                for (int k = 0; k < cap; k++) if (b[k] != 0xAA) ok = 0;
            }
            printf("%c %d ", c, r); puthex(b, m); printf(" %d", ok); free(b);
        } else if (c == 'f') {
            int len; char *scr = malloc(strlen(op) + 1); scr[0] = 0; sscanf(op + 1, "%d %s", &len, scr);
            rd_load(scr); long before = rd_pending();
            int dr = -99; int r = cbuf_write_from_fd(cb, FAKE_FD, len, &dr);
            printf("f %d %d %ld", r, dr, before - rd_pending()); free(scr);
        } else if (c == 't') {
            int len; char *scr = malloc(strlen(op) + 1); scr[0] = 0; sscanf(op + 1, "%d %s", &len, scr);
            wr_load(scr);
            int r = cbuf_read_to_fd(cb, FAKE_FD, len);
            printf("t %d ", r); puthex(wr_buf, wr_len); free(scr);
        } else if (c == 'x') {
            cbuf_flush(cb); printf("x");
        } else if (c == 'u') {
            printf("u %d %d %d", cbuf_used(cb), cbuf_free(cb), cbuf_is_empty(cb) ? 1 : 0);
        } else if (c == 'o') {
            int v; sscanf(op + 1, "%d", &v);
            printf("o %d", cbuf_opt_set(cb, CBUF_OPT_OVERWRITE, v));
        } else {
            printf("? unknown op %c", c);
        }
        (void)a1; (void)a2; (void)big;
        state(cb);
    }
    cbuf_destroy(cb);
}

int main(int argc, char **argv)
{
    char *line = NULL; size_t cap = 0; ssize_t n;
    int nofork = argc > 1 && !strcmp(argv[1], "nofork");
    static char obuf[1 << 20];
    setvbuf(stdout, obuf, _IOFBF, sizeof obuf);
    while ((n = getline(&line, &cap, stdin)) > 0) {
        if (line[n - 1] == '\n') line[n - 1] = 0;
        if (!line[0] || line[0] == '#') continue;
        if (nofork) { run_case(line); continue; }
        fflush(stdout);
        pid_t pid = fork();
        if (pid == 0) { setvbuf(stdout, NULL, _IOLBF, 0); run_case(line); fflush(stdout); _exit(0); }
        int st = 0; waitpid(pid, &st, 0);
        if (!(WIFEXITED(st) && WEXITSTATUS(st) == 0)) {
            char id[64] = "?"; sscanf(line, "%63s", id);
            printf("\n! %s %s %d\n", id, WIFSIGNALED(st) ? "signal" : "exit", WIFSIGNALED(st) ? WTERMSIG(st) : WEXITSTATUS(st));
        }
    }
    free(line);
    fflush(stdout);
    return 0;
}
