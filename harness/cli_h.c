/* R-CLIENT: the request/reply layer of the scratch copy's client.c on a configuration loaded by the real parser,
 * with real dev_check_actions/dev_enqueue_actions; completions, Arg updates, telemetry and diagnostics are
 * injected by the case.  argv[1] = powerman.conf; ops on stdin (see driver/cli_drv.ml). */
#undef main
#include "client.c"
#include <stdio.h>
#include <sys/socket.h>
#include <poll.h>

static int next_accept = -1;
int __wrap_accept(int fd, struct sockaddr *a, socklen_t *l)
{
    struct sockaddr_in *in = (struct sockaddr_in *)a; memset(in, 0, sizeof *in); in->sin_family = AF_INET; *l = sizeof *in;
    int r = next_accept; next_accept = -1; return r;
}
int __wrap_getnameinfo(const struct sockaddr *sa, socklen_t salen, char *host, socklen_t hostlen, char *serv, socklen_t servlen, int flags)
{
    if (flags & NI_NAMEREQD) return EAI_NONAME;
    if (host) snprintf(host, hostlen, "127.0.0.1"); if (serv) snprintf(serv, servlen, "1"); return 0;
}
#define MAXC 16
static Client *C[MAXC]; static int far[MAXC]; static int cid[MAXC]; static int nc;
static unsigned char bytes[1 << 21];
static void hexn(const void *s, int n) { if (n == 0) printf("-"); for (int i = 0; i < n; i++) printf("%02x", ((const unsigned char *)s)[i]); }
static void hexs(const char *s) { if (!s) { printf("~"); return; } hexn(s, strlen(s)); }
static int unhex(const char *h, unsigned char *dst) { int n = 0; if (h[0] == '-') return 0; while (h[0] && h[1]) { unsigned x; sscanf(h, "%2x", &x); dst[n++] = x; h += 2; } return n; }

/* the device layer's queues, as dev_enqueue_actions left them; then emptied (nothing ever runs here) */
#include "device_private.h"
typedef struct { List plugs; List block; ListIterator stmtitr; Stmt *cur; void *plugitr; void *pluglist; bool processing; } ExecCtxMirror;
typedef struct { int com; List exec; } ActionMirror;
static void dump_queues(void)
{
    List devs = dev_getdevices(); ListIterator itr = list_iterator_create(devs); Device *dev; int i = 0, any = 0;
    while ((dev = list_next(itr))) {
        ActionMirror *act;
        while ((act = list_dequeue(dev->acts))) {
            ExecCtxMirror *e = list_peek(act->exec);
            if (!any) printf("QUEUED "); any = 1;
            printf("%d:%d:", i, act->com);
            if (!e->plugs) printf("NULL"); else if (list_count(e->plugs) == 0) printf("EMPTY");
            else { ListIterator pi = list_iterator_create(e->plugs); Plug *p; int first = 1; while ((p = list_next(pi))) { printf("%s", first ? "" : ","); hexs(p->name); first = 0; } list_iterator_destroy(pi); }
            printf(";");
            /* the Action is leaked on purpose: its destructor is private to device.c; the arglist reference it holds
             * keeps the list alive exactly as a queued action would */
        }
        i++;
    }
    list_iterator_destroy(itr);
    if (any) printf("\n");
}
static void outputs(void)
{
    for (int k = 0; k < nc; k++) {
        if (!C[k]) continue;
        if (!cbuf_is_empty(C[k]->to)) _handle_write(C[k]);
        int n = read(far[k], bytes, sizeof bytes);
        if (n > 0) { printf("OUT %d ", k); hexn(bytes, n); printf("\n"); }
    }
}

int main(int argc, char **argv)
{
    static char line[1 << 22];
    err_init(argv[0]);
    dev_init(false);
    cli_init();
    conf_init(argv[1]);
    { hostlist_iterator_t it = hostlist_iterator_create(conf_getnodes()); char *n; int first = 1; printf("NODES ");
      while ((n = hostlist_next(it))) { printf("%s", first ? "" : ","); hexs(n); first = 0; free(n); } if (first) printf("-"); printf("\n"); hostlist_iterator_destroy(it); }
    setvbuf(stdout, NULL, _IOFBF, 1 << 16);
    while (fgets(line, sizeof line, stdin)) {
        int k, n, err, st, res; static char a[1 << 21], b[1 << 21];
        line[strcspn(line, "\n")] = 0;
        if (!strcmp(line, "CONN")) {
            int sv[2]; socketpair(AF_UNIX, SOCK_STREAM, 0, sv); nonblock_set(sv[1]);
            int sz = 1 << 22; setsockopt(sv[0], SOL_SOCKET, SO_SNDBUF, &sz, sizeof sz); setsockopt(sv[1], SOL_SOCKET, SO_SNDBUF, &sz, sizeof sz);
            next_accept = sv[0]; _create_client_socket(-1);
            { ListIterator it = list_iterator_create(cli_clients); Client *c, *last = NULL; while ((c = list_next(it))) last = c; list_iterator_destroy(it); C[nc] = last; }
            far[nc] = sv[1]; cid[nc] = C[nc]->client_id; nc++;
        }
        else if (sscanf(line, "DROP %d", &k) == 1) {
            /* the client record is destroyed (what cli_post_poll does on EOF / error / quit): actions it queued stay */
            if (C[k]) { ListIterator it = list_iterator_create(cli_clients); Client *c; while ((c = list_next(it))) if (c == C[k]) { list_delete(it); break; } list_iterator_destroy(it); C[k] = NULL; }
        }
        else if (sscanf(line, "BYTES %d %s", &k, a) == 2) {
            if (!C[k]) { printf("GONE\nEND\n"); fflush(stdout); continue; }
            n = unhex(a, bytes);
            if (write(far[k], bytes, n) != n) printf("HARNESS short write\n");
            /* as the poll loop would: read while the descriptor is readable, then extract the lines */
            for (;;) { struct pollfd pf = { C[k]->fd, POLLIN, 0 }; if (poll(&pf, 1, 0) <= 0 || !(pf.revents & POLLIN)) break; _handle_read(C[k]); _handle_input(C[k]); }
            dump_queues();
        }
        else if (sscanf(line, "DONE1 %d %d %s", &k, &err, a) == 3) {
            n = unhex(a, bytes); bytes[n] = 0;
            if (!C[k]) { /* completion of an action whose client is gone: looked up by id, must do nothing */
                         if (err == 0) _act_finish(cid[k], err, NULL); else _act_finish(cid[k], err, "%s", (char *)bytes); printf("ORPHAN\n"); }
            else if (!C[k]->cmd) printf("SKIP\n");
            else { if (err == 0) _act_finish(C[k]->client_id, err, NULL); else _act_finish(C[k]->client_id, err, "%s", (char *)bytes); }
        }
        else if (sscanf(line, "DONEALL %d %s %s", &k, b, a) == 3) {
            if (!C[k]) printf("GONE\n");
            else if (!C[k]->cmd) printf("SKIP\n");
            else { n = unhex(a, bytes); bytes[n] = 0; int i = 0, L = strlen(b);
                   while (C[k]->cmd) { err = b[i % L] - '0'; i++; if (err == 0) _act_finish(C[k]->client_id, err, NULL); else _act_finish(C[k]->client_id, err, "%s", (char *)bytes); } }
        }
        else if (sscanf(line, "ARG %d %s %d %d %s", &k, a, &st, &res, b) == 5) {
            if (!C[k]) printf("GONE\n");
            else if (!C[k]->cmd) printf("SKIP\n");
            else { n = unhex(a, bytes); bytes[n] = 0; Arg *arg = arglist_find(C[k]->cmd->arglist, (char *)bytes);
                   if (!arg) printf("NOARG\n");
                   else { arg->state = st; arg->result = res; if (arg->val) xfree(arg->val); arg->val = NULL;
                          if (strcmp(b, "~")) { n = unhex(b, bytes); bytes[n] = 0; arg->val = xstrdup((char *)bytes); } } }
        }
        else if (sscanf(line, "TELE %d %s", &k, a) == 2) { if (!C[k]) { n = unhex(a, bytes); bytes[n] = 0; _telemetry_printf(cid[k], "%s", (char *)bytes); printf("ORPHAN\n"); } else if (!C[k]->cmd) printf("SKIP\n"); else { n = unhex(a, bytes); bytes[n] = 0; _telemetry_printf(C[k]->client_id, "%s", (char *)bytes); } }
        else if (sscanf(line, "DIAG %d %s", &k, a) == 2) { if (!C[k]) { n = unhex(a, bytes); bytes[n] = 0; _diag_printf(cid[k], "%s", (char *)bytes); printf("ORPHAN\n"); } else if (!C[k]->cmd) printf("SKIP\n"); else { n = unhex(a, bytes); bytes[n] = 0; _diag_printf(C[k]->client_id, "%s", (char *)bytes); } }
        else continue;
        outputs();
        printf("END\n");
        fflush(stdout);
    }
    return 0;
}
