/* shared by cbuf_h.c and telnet_h.c: hex i/o, the pattern generator, and the scripted descriptor that
 * stands in for read()/write() inside cbuf.c.  The semantics are those of Model/Cbuf.v getf / putf:
 *   read side : a list of items; "+bytes" = data available (a read of n takes min(n, |bytes|), the rest stays
 *               for the next read), "e" = -1/EAGAIN, "z" = 0 (EOF); an exhausted list gives -1/EAGAIN.
 *   write side: a list of accept counts, one per write() call; negative = -1/EAGAIN; an exhausted list
 *               accepts everything. */
#ifndef CBUF_FAKEFD_H
#define CBUF_FAKEFD_H
#define FAKE_FD 1000

static int hexval(int c) { return c >= '0' && c <= '9' ? c - '0' : c >= 'a' && c <= 'f' ? c - 'a' + 10 : c >= 'A' && c <= 'F' ? c - 'A' + 10 : -1; }

/* parses the first hex token of s ("-" = empty); returns malloc'd bytes */
static unsigned char *unhex(const char *s, size_t *n)
{
    while (*s == ' ') s++;
    size_t l = 0; while (hexval((unsigned char)s[l]) >= 0) l++;
    unsigned char *b = malloc(l / 2 + 1);
    for (size_t i = 0; i < l / 2; i++) b[i] = (unsigned char)(hexval((unsigned char)s[2 * i]) * 16 + hexval((unsigned char)s[2 * i + 1]));
    *n = l / 2;
    return b;
}

static void puthex(const unsigned char *b, long n)
{
    static const char *d = "0123456789abcdef";
    if (n <= 0) { putchar('-'); return; }
    for (long i = 0; i < n; i++) { putchar(d[b[i] >> 4]); putchar(d[b[i] & 15]); }
}

static unsigned char pat(int seed, int k)
{
    if ((k + seed) % 23 == 0) return 10;
    return (unsigned char)((seed + k * 7 + (k / 256) * 13) & 255);
}

/* ---- read side ---- */
#define RD_MAX 256
static struct { int kind; unsigned char *b; size_t len, off; } rd_item[RD_MAX];   /* kind: 0 data, 1 eagain, 2 eof */
static int rd_n, rd_cur;

static void rd_clear(void) { for (int i = 0; i < rd_n; i++) if (rd_item[i].kind == 0) free(rd_item[i].b); rd_n = rd_cur = 0; }

static void rd_load(const char *scr)
{
    rd_clear();
    if (!scr || !*scr || !strcmp(scr, "-")) return;
    const char *p = scr;
    while (*p && rd_n < RD_MAX) {
        if (*p == '+') { rd_item[rd_n].kind = 0; rd_item[rd_n].b = unhex(p + 1, &rd_item[rd_n].len); rd_item[rd_n].off = 0; rd_n++; }
        else if (*p == 'e') { rd_item[rd_n].kind = 1; rd_n++; }
        else if (*p == 'z') { rd_item[rd_n].kind = 2; rd_n++; }
        while (*p && *p != ',') p++;
        if (*p == ',') p++;
    }
}

static void rd_load_bytes(const unsigned char *b, size_t n)
{
    rd_clear();
    rd_item[0].kind = 0; rd_item[0].b = malloc(n + 1); memcpy(rd_item[0].b, b, n); rd_item[0].len = n; rd_item[0].off = 0; rd_n = 1;
}

static long rd_pending(void)
{
    long t = 0;
    for (int i = rd_cur; i < rd_n; i++) if (rd_item[i].kind == 0) t += (long)(rd_item[i].len - rd_item[i].off);
    return t;
}

static ssize_t fake_read(int fd, void *buf, size_t n)
{
    if (fd != FAKE_FD) { errno = EBADF; return -1; }
    if (rd_cur >= rd_n) { errno = EAGAIN; return -1; }
    if (rd_item[rd_cur].kind == 1) { rd_cur++; errno = EAGAIN; return -1; }
    if (rd_item[rd_cur].kind == 2) { rd_cur++; return 0; }
    size_t avail = rd_item[rd_cur].len - rd_item[rd_cur].off;
    size_t k = n < avail ? n : avail;
    if (k > 0) memcpy(buf, rd_item[rd_cur].b + rd_item[rd_cur].off, k);
    rd_item[rd_cur].off += k;
    if (rd_item[rd_cur].off >= rd_item[rd_cur].len) rd_cur++;
    return (ssize_t)k;
}

/* ---- write side ---- */
#define WR_MAX 256
static long wr_acc[WR_MAX]; static int wr_n, wr_cur;
static unsigned char *wr_buf; static long wr_len, wr_cap;

static void wr_load(const char *scr)
{
    wr_n = wr_cur = 0; wr_len = 0;
    if (!scr || !*scr || !strcmp(scr, "-")) return;
    const char *p = scr;
    while (*p && wr_n < WR_MAX) {
        wr_acc[wr_n++] = strtol(p, NULL, 10);
        while (*p && *p != ',') p++;
        if (*p == ',') p++;
    }
}

static ssize_t fake_write(int fd, const void *buf, size_t n)
{
    if (fd != FAKE_FD) { errno = EBADF; return -1; }
    size_t k = n;
    if (wr_cur < wr_n) {
        long a = wr_acc[wr_cur++];
        if (a < 0) { errno = EAGAIN; return -1; }
        if ((size_t)a < k) k = (size_t)a;
    }
    if (k == 0) return 0;
    if (wr_len + (long)k > wr_cap) { wr_cap = (wr_len + (long)k) * 2 + 64; wr_buf = realloc(wr_buf, wr_cap); }
    memcpy(wr_buf + wr_len, buf, k);
    wr_len += (long)k;
    return (ssize_t)k;
}
#endif
