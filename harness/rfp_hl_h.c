/* C19 / R-RFP: hostlist_create() oracle.  redfishpower hands every plug / host-index / target argument to
 * hostlist_create() and iterates the result; the model takes that expansion as an input (hostlist.c is C14's
 * subject).  This driver evaluates the REAL hostlist.c of the scratch copy on each argument.
 *   stdin : one hex-encoded argument per line
 *   stdout: "BAD" (NULL) | "FATAL" (lsd_fatal_error called) | "OK <hexname> ..." (iteration order), one line per argument */
#include <stdio.h>
#include <stdlib.h>
#include <string.h>
#include <setjmp.h>
#include "hostlist.h"

/* config.h selects the function form of the two liblsd hooks (libcommon/error.c in the real programs) */
static jmp_buf fatal_jb;
void lsd_fatal_error(char *file, int line, char *mesg) { longjmp(fatal_jb, 1); }
void *lsd_nomem_error(char *file, int line, char *mesg) { return NULL; }

static void hex(const char *s) { if (!*s) printf(" -"); else { printf(" "); while (*s) printf("%02x", (unsigned char)*s++); } }

int main(void)
{
    static char line[1 << 16], arg[1 << 15];
    while (fgets(line, sizeof(line), stdin)) {
        size_t n = 0, i;
        for (i = 0; line[i] && line[i + 1] && line[i] != '\n' && line[i] != '-'; i += 2) {
            unsigned v; sscanf(line + i, "%2x", &v); arg[n++] = (char)v;
        }
        arg[n] = 0;
        if (setjmp(fatal_jb)) { printf("FATAL\n"); continue; }   /* the fatal hook: the real helper would exit */
        hostlist_t h = hostlist_create(arg);
        if (!h) { printf("BAD\n"); continue; }
        hostlist_iterator_t it = hostlist_iterator_create(h);
        char *s;
        printf("OK");
        while ((s = hostlist_next(it))) { hex(s); free(s); }
        printf("\n");
        hostlist_iterator_destroy(it);
        hostlist_destroy(h);
    }
    return 0;
}
