/* R-SCAN driver (DESIGN §3.2, §5 C16): the real libpowerman.c of the scratch copy, with the OS calls it makes
 * (read/write/close/socket/connect/getaddrinfo) redirected to a scripted server: read() returns the next chunk
 * of the case (never more than the caller asked for: the remainder stays queued), `-` is EOF, an exhausted
 * script is EOF.  Everything else is the unmodified library; ASan/UBSan make out-of-object accesses observable.
 *
 * stdin : one case per line   <id> <ops> <chunks>
 *         ops    = comma separated: c | s:<hexnode> | 1:<hex> | 0:<hex> | y:<hex> | n | r | d
 *                  (connect, status, on, off, cycle, node iterator, raw _server_recv_response, disconnect)
 *         chunks = comma separated hex strings, `-` = EOF, `e` = read() fails with EIO; `_` alone = no chunks
 * stdout: one line per case   <id> <result>;<result>;...      result = <op>=<rc>:<consumed>:<senthex>:<payload>
 * A sanitizer report kills the process: the python side restarts after the offending case.
 */
#include <sys/types.h>
#include <sys/socket.h>
#include <netdb.h>
#include <stdio.h>
#include <string.h>
#include <stdlib.h>
#include <unistd.h>
#include <errno.h>

static ssize_t h_read(int fd, void *buf, size_t n);
static ssize_t h_write(int fd, const void *buf, size_t n);
static int h_close(int fd);
static int h_socket(int a, int b, int c);
static int h_connect(int fd, const struct sockaddr *sa, socklen_t l);
static int h_getaddrinfo(const char *h, const char *p, const struct addrinfo *hints, struct addrinfo **res);
static void h_freeaddrinfo(struct addrinfo *r);

#define read h_read
#define write h_write
#define close h_close
#define socket h_socket
#define connect h_connect
#define getaddrinfo h_getaddrinfo
#define freeaddrinfo h_freeaddrinfo
#include "libpowerman.c"
#undef read
#undef write
#undef close
#undef socket
#undef connect
#undef getaddrinfo
#undef freeaddrinfo

/* ------------------------------------------------------------------ scripted server */
#define MAXCH 70000
static unsigned char *ch_data[MAXCH];
static long ch_len[MAXCH];            /* -1 = EOF marker, -2 = error marker */
static long ch_off[MAXCH];
static int ch_n, ch_cur;
static long consumed;
static char *sent;
static long sent_len, sent_cap;

static ssize_t h_read(int fd, void *buf, size_t n)
{
    long k;
    if (ch_cur >= ch_n)
        return 0;
    if (ch_len[ch_cur] == -1) { ch_cur++; return 0; }
    if (ch_len[ch_cur] == -2) { ch_cur++; errno = EIO; return -1; }
    k = ch_len[ch_cur] - ch_off[ch_cur];
    if ((size_t)k > n)
        k = n;
    memcpy(buf, ch_data[ch_cur] + ch_off[ch_cur], k);   /* the library's buffer is written here: ASan checks it */
    ch_off[ch_cur] += k;
    consumed += k;
    if (ch_off[ch_cur] == ch_len[ch_cur])
        ch_cur++;
    return k;
}

static ssize_t h_write(int fd, const void *buf, size_t n)
{
    if (sent_len + (long)n + 1 > sent_cap) {
        sent_cap = (sent_len + n + 1) * 2;
        sent = realloc(sent, sent_cap);
    }
    memcpy(sent + sent_len, buf, n);
    sent_len += n;
    return n;
}
static int h_close(int fd) { return 0; }
static int h_socket(int a, int b, int c) { return 1000; }
static int h_connect(int fd, const struct sockaddr *sa, socklen_t l) { return 0; }
static struct sockaddr_storage h_ss;
static struct addrinfo h_ai;
static int h_getaddrinfo(const char *h, const char *p, const struct addrinfo *hints, struct addrinfo **res)
{
    memset(&h_ai, 0, sizeof(h_ai));
    h_ai.ai_family = AF_INET; h_ai.ai_socktype = SOCK_STREAM;
    h_ai.ai_addr = (struct sockaddr *)&h_ss; h_ai.ai_addrlen = sizeof(struct sockaddr_in);
    *res = &h_ai;
    return 0;
}
static void h_freeaddrinfo(struct addrinfo *r) { }

/* ------------------------------------------------------------------ case decoding */
static int hexv(int c) { return c <= '9' ? c - '0' : (c | 32) - 'a' + 10; }
static long unhex(const char *s, long n, unsigned char *out)
{
    long i;
    for (i = 0; i + 1 < n; i += 2)
        out[i / 2] = hexv(s[i]) * 16 + hexv(s[i + 1]);
    return n / 2;
}

static char *out;
static long out_len, out_cap;
static void o_need(long n) { if (out_len + n + 1 > out_cap) { out_cap = (out_len + n + 1) * 2; out = realloc(out, out_cap); } }
static void o_str(const char *s) { long n = strlen(s); o_need(n); memcpy(out + out_len, s, n); out_len += n; }
static void o_hex(const unsigned char *p, long n)
{
    static const char *hx = "0123456789abcdef";
    long i;
    if (n == 0) { o_str("-"); return; }
    o_need(2 * n);
    for (i = 0; i < n; i++) { out[out_len++] = hx[p[i] >> 4]; out[out_len++] = hx[p[i] & 15]; }
}
static void o_int(long v) { char b[32]; snprintf(b, sizeof(b), "%ld", v); o_str(b); }

static void head(const char *op, long rc, long c0, long s0)
{
    o_str(op); o_str("="); o_int(rc); o_str(":"); o_int(consumed - c0); o_str(":");
    o_hex((unsigned char *)sent + s0, sent_len - s0); o_str(":");
}

static void run_case(char *ops, char *chunks)
{
    pm_handle_t pmh = NULL;
    char *op, *save = NULL, *c, *csave = NULL;
    int first = 1, i;

    for (i = 0; i < ch_n; i++) { free(ch_data[i]); ch_data[i] = NULL; }
    ch_n = ch_cur = 0; consumed = 0; sent_len = 0;
    if (strcmp(chunks, "_") != 0) {
        for (c = strtok_r(chunks, ",", &csave); c && ch_n < MAXCH; c = strtok_r(NULL, ",", &csave)) {
            long n = strlen(c);
            ch_off[ch_n] = 0;
            if (strcmp(c, "-") == 0) { ch_len[ch_n] = -1; ch_data[ch_n] = NULL; }
            else if (strcmp(c, "e") == 0) { ch_len[ch_n] = -2; ch_data[ch_n] = NULL; }
            else {
                /* exact-size heap object so that an over-read by the harness itself would be seen too */
                ch_data[ch_n] = malloc(n / 2 ? n / 2 : 1);
                ch_len[ch_n] = unhex(c, n, ch_data[ch_n]);
            }
            ch_n++;
        }
    }
    for (op = strtok_r(ops, ",", &save); op; op = strtok_r(NULL, ",", &save)) {
        long c0 = consumed, s0 = sent_len;
        pm_err_t rc;
        char *node = NULL;
        if (!first) o_str(";");
        first = 0;
        if (op[1] == ':') {
            long n = strlen(op + 2);
            node = malloc(n / 2 + 1);
            if (strcmp(op + 2, "-") == 0) n = 0;
            node[unhex(op + 2, n, (unsigned char *)node)] = '\0';
        }
        switch (op[0]) {
        case 'c': {
            pm_handle_t h = NULL;
            rc = pm_connect("localhost:10101", NULL, &h, 0);
            if (rc == PM_ESUCCESS) pmh = h;      /* a second connect replaces the handle (the old one leaks: fine) */
            head("c", rc, c0, s0);
            break; }
        case 's': {
            pm_node_state_t st = 77;             /* 77 = untouched */
            rc = pm_node_status(pmh, node, &st);
            head("s", rc, c0, s0); o_int(st);
            break; }
        case '1': rc = pm_node_on(pmh, node); head("1", rc, c0, s0); break;
        case '0': rc = pm_node_off(pmh, node); head("0", rc, c0, s0); break;
        case 'y': rc = pm_node_cycle(pmh, node); head("y", rc, c0, s0); break;
        case 'n': {
            pm_node_iterator_t it = NULL;
            rc = pm_node_iterator_create(pmh, &it);
            head("n", rc, c0, s0);
            if (rc == PM_ESUCCESS) {
                char *s; int k = 0, pass;
                /* two passes: reset must restart the same sequence */
                for (pass = 0; pass < 2; pass++) {
                    if (pass) { o_str("/"); k = 0; pm_node_iterator_reset(it); }
                    while ((s = pm_node_next(it))) { if (k++) o_str(","); o_hex((unsigned char *)s, strlen(s)); }
                    if (k == 0) o_str("_");
                }
                pm_node_iterator_destroy(it);
            }
            break; }
        case 'r': {
            struct pm_handle_struct hs; struct list_struct *resp = NULL, *lp; int k = 0;
            hs.pmh_fd = 1000;
            rc = _server_recv_response(&hs, &resp);
            head("r", rc, c0, s0);
            if (rc == PM_ESUCCESS) {
                /* list order as built (reverse of the stream order) */
                for (lp = resp; lp; lp = lp->next) { if (k++) o_str(","); o_hex((unsigned char *)lp->data, strlen(lp->data)); }
                if (k == 0) o_str("_");
                _list_free(&resp);
            }
            break; }
        case 'd':
            pm_disconnect(pmh); pmh = NULL;
            head("d", 0, c0, s0);
            break;
        default:
            o_str("?");
        }
        free(node);
    }
    if (pmh) free(pmh);
}

int main(int argc, char **argv)
{
    char *line = NULL; size_t cap = 0; ssize_t n;
    while ((n = getline(&line, &cap, stdin)) > 0) {
        char *id, *ops, *chunks, *save = NULL;
        if (line[n - 1] == '\n') line[n - 1] = '\0';
        id = strtok_r(line, " ", &save); ops = strtok_r(NULL, " ", &save); chunks = strtok_r(NULL, " ", &save);
        if (!id || !ops || !chunks) continue;
        out_len = 0;
        o_str(id); o_str(" ");
        fprintf(stderr, "CASE %s\n", id); fflush(stderr);
        run_case(ops, chunks);
        o_str("\n");
        fwrite(out, 1, out_len, stdout); fflush(stdout);
    }
    return 0;
}
