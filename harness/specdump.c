/* specdump: what the REAL configuration parser (bison/flex output regenerated from the tree's parse_tab.y /
 * parse_lex.l, linked unmodified) builds for a device file, and what the REAL script interpreter statics of
 * device.c pass to hsprintf.   Relations R-SPEC and R-CTX of property C17.
 *
 * stdin: one request per line
 *     D <wrapper-config-path>      dump the Stmt trees of every device of the wrapper (except the dummy "zz_dummy")
 *     X <wrapper-config-path>      D, then execute every script of every device through _process_action with the
 *                                  device replies faked, and log every hsprintf(fmt, arg) call
 * Each request runs in a forked child (the parser exits the process on any error); the parent prints
 *     BEGIN <path>  ... child output ...  STATUS exit=<n> sig=<n> err=<hex of first bytes of stderr>
 * (STATUS starts on a fresh line even if the child died in the middle of one)
 *
 * Dump format (shared with gen/devparse.py):
 *   SPEC <hexname> <timeout usec> <ping usec>
 *   PLUGS none | <n> <hex>...
 *   SCRIPT <idx> <nstmts>
 *   <depth> SEND <hex> | <depth> EXPECT <hex> <re_nsub> | <depth> DELAY <usec>
 *   <depth> SETPLUGSTATE none|=<hex> <plug_mp> <stat_mp> <ninterps>   followed by  <depth> INTERP <code> <hex> <re_nsub>
 *   <depth> SETRESULT <plug_mp> <stat_mp> <ninterps>                  followed by  <depth> INTERP ...
 *   <depth> FOREACHPLUG|FOREACHNODE|IFON|IFOFF <nstmts>               followed by the body at depth+1
 *   ENDSPEC
 * The regex SOURCE text is not kept by the parser for `expect` (only the compiled regex_t), so EXPECT lines print
 * the text recorded by our wrapper of xregex_compile (which calls the real one).
 */
#if HAVE_CONFIG_H
#include "config.h"
#endif
#include <stdio.h>
#include <stdlib.h>
#include <string.h>
#include <unistd.h>
#include <stdarg.h>
#include <sys/wait.h>
#include <sys/time.h>
#include <signal.h>

/* the real xregex.c, included so that struct xregex_struct (re_nsub) is visible; xregex_compile is renamed and
 * wrapped so that the source text of every compiled pattern can be printed next to its re_nsub */
#define xregex_compile real_xregex_compile
#define xregex_exec real_xregex_exec
#include "xregex.c"
#undef xregex_compile
#undef xregex_exec

#define MAXPAT 20000
static struct { xregex_t re; char *src; } pats[MAXPAT];
static int npats;

void xregex_compile(xregex_t xrp, const char *regex, bool withsub)
{
    real_xregex_compile(xrp, regex, withsub);
    if (npats < MAXPAT) {
        pats[npats].re = xrp;
        pats[npats].src = strdup(regex);
        npats++;
    }
}

static const char *pat_src(xregex_t re)
{
    int i;
    for (i = npats - 1; i >= 0; i--)
        if (pats[i].re == re)
            return pats[i].src;
    return NULL;
}

/* exec mode: regexec is faked (a device reply that matches is not needed to observe the plug context) */
static int fake_exec;            /* 0 = real regexec; 1 = fake */
static int fake_interp;          /* interpretation patterns (xm == NULL) when faking: 0 = none matches,
                                    1 = only on= / success= match, 2 = only off= match */
#define MAXINTERP 20000
static struct { xregex_t re; int positive; } interps[MAXINTERP];
static int ninterps;
static int interp_positive(xregex_t re)
{
    int i;
    for (i = ninterps - 1; i >= 0; i--)
        if (interps[i].re == re)
            return interps[i].positive;
    return 1;
}
bool xregex_exec(xregex_t xrp, const char *s, xregex_match_t xm)
{
    int i;
    if (!fake_exec)
        return real_xregex_exec(xrp, s, xm);
    if (xm == NULL) {
        if (fake_interp == 0)
            return false;
        return (fake_interp == 1) == (interp_positive(xrp) != 0);
    }
    assert(xm->xm_used == false);
    xm->xm_result = 0;
    xm->xm_used = true;
    if (xm->xm_str)
        xfree(xm->xm_str);
    xm->xm_str = xstrdup(s);
    for (i = 0; i < xm->xm_nmatch; i++) {
        if (i <= (int)xrp->xr_regex->re_nsub) {
            xm->xm_pmatch[i].rm_so = 0;
            xm->xm_pmatch[i].rm_eo = 1;
        } else {
            xm->xm_pmatch[i].rm_so = -1;
            xm->xm_pmatch[i].rm_eo = -1;
        }
    }
    return true;
}

/* the real pluglist.c, included so that the `hardwired` flag (plug names given by the specification, as opposed to
 * plugs created by `node` lines) is visible */
#include "pluglist.c"

/* the real device.c, with calls to hsprintf redirected to a logger */
#include "hprintf.h"
static char *probe_hsprintf(const char *fmt, ...);
#define hsprintf probe_hsprintf
#include "device.c"
#undef hsprintf

#include "parse_util.h"

static void hexs(const char *s)
{
    if (!s || !*s) {
        printf("-");
        return;
    }
    for (; *s; s++)
        printf("%02x", (unsigned char)*s);
}

static long long tv_usec(struct timeval *tv)
{
    return (long long)tv->tv_sec * 1000000LL + (long long)tv->tv_usec;
}

static void dump_block(List l, int depth);

static void dump_stmt(Stmt *st, int depth)
{
    ListIterator itr;
    switch (st->type) {
    case STMT_SEND:
        printf("%d SEND ", depth); hexs(st->u.send.fmt); printf("\n");
        break;
    case STMT_EXPECT:
        printf("%d EXPECT ", depth); hexs(pat_src(st->u.expect.exp));
        printf(" %d\n", (int)st->u.expect.exp->xr_regex->re_nsub);
        break;
    case STMT_DELAY:
        printf("%d DELAY %lld\n", depth, tv_usec(&st->u.delay.tv));
        break;
    case STMT_SETPLUGSTATE: {
        StateInterp *i;
        printf("%d SETPLUGSTATE ", depth);
        if (st->u.setplugstate.plug_name) {
            printf("="); hexs(st->u.setplugstate.plug_name);
        } else
            printf("none");
        printf(" %d %d %d\n", st->u.setplugstate.plug_mp, st->u.setplugstate.stat_mp,
               list_count(st->u.setplugstate.interps));
        itr = list_iterator_create(st->u.setplugstate.interps);
        while ((i = list_next(itr))) {
            printf("%d INTERP %d ", depth, (int)i->state); hexs(i->str);
            printf(" %d\n", (int)i->re->xr_regex->re_nsub);
        }
        list_iterator_destroy(itr);
        break;
    }
    case STMT_SETRESULT: {
        ResultInterp *i;
        printf("%d SETRESULT %d %d %d\n", depth, st->u.setresult.plug_mp, st->u.setresult.stat_mp,
               list_count(st->u.setresult.interps));
        itr = list_iterator_create(st->u.setresult.interps);
        while ((i = list_next(itr))) {
            printf("%d INTERP %d ", depth, (int)i->result); hexs(i->str);
            printf(" %d\n", (int)i->re->xr_regex->re_nsub);
        }
        list_iterator_destroy(itr);
        break;
    }
    case STMT_FOREACHPLUG:
    case STMT_FOREACHNODE:
        printf("%d %s %d\n", depth, st->type == STMT_FOREACHPLUG ? "FOREACHPLUG" : "FOREACHNODE",
               list_count(st->u.foreach.stmts));
        dump_block(st->u.foreach.stmts, depth + 1);
        break;
    case STMT_IFON:
    case STMT_IFOFF:
        printf("%d %s %d\n", depth, st->type == STMT_IFON ? "IFON" : "IFOFF", list_count(st->u.ifonoff.stmts));
        dump_block(st->u.ifonoff.stmts, depth + 1);
        break;
    default:
        printf("%d UNKNOWN %d\n", depth, (int)st->type);
    }
}

static void dump_block(List l, int depth)
{
    ListIterator itr = list_iterator_create(l);
    Stmt *st;
    while ((st = list_next(itr)))
        dump_stmt(st, depth);
    list_iterator_destroy(itr);
}

static void dump_device(Device *dev)
{
    PlugListIterator pitr;
    Plug *plug;
    int i, n = 0;

    printf("SPEC "); hexs(dev->specname);
    printf(" %lld %lld\n", tv_usec(&dev->timeout), tv_usec(&dev->ping_period));
    pitr = pluglist_iterator_create(dev->plugs);
    while ((plug = pluglist_next(pitr)))
        n++;
    pluglist_iterator_destroy(pitr);
    if (!dev->plugs->hardwired)
        printf("PLUGS none\n");
    else {
        printf("PLUGS %d", n);
        pitr = pluglist_iterator_create(dev->plugs);
        while ((plug = pluglist_next(pitr))) {
            printf(" "); hexs(plug->name);
        }
        pluglist_iterator_destroy(pitr);
        printf("\n");
    }
    for (i = 0; i < NUM_SCRIPTS; i++) {
        if (!dev->scripts[i])
            continue;
        printf("SCRIPT %d %d\n", i, list_count(dev->scripts[i]));
        dump_block(dev->scripts[i], 0);
    }
    printf("ENDSPEC\n");
}

/* ------------------------------------------------------------------ exec mode (R-CTX) */
#define MAXSEND 20000
static struct { const char *fmt; int script; char path[64]; } sends[MAXSEND];
static int nsends;
static int cur_script = -1;

static void index_block(List l, int script, const char *prefix)
{
    ListIterator itr = list_iterator_create(l);
    Stmt *st;
    int k = 0;
    char p[64];
    while ((st = list_next(itr))) {
        snprintf(p, sizeof(p), "%s%s%d", prefix, *prefix ? "." : "", k);
        switch (st->type) {
        case STMT_SEND:
            if (nsends < MAXSEND) {
                sends[nsends].fmt = st->u.send.fmt;
                sends[nsends].script = script;
                strcpy(sends[nsends].path, p);
                nsends++;
            }
            break;
        case STMT_SETPLUGSTATE: {
            ListIterator it2 = list_iterator_create(st->u.setplugstate.interps);
            StateInterp *si;
            while ((si = list_next(it2)))
                if (ninterps < MAXINTERP) {
                    interps[ninterps].re = si->re;
                    interps[ninterps].positive = (si->state == ST_ON);
                    ninterps++;
                }
            list_iterator_destroy(it2);
            break;
        }
        case STMT_FOREACHPLUG:
        case STMT_FOREACHNODE:
            index_block(st->u.foreach.stmts, script, p);
            break;
        case STMT_IFON:
        case STMT_IFOFF:
            index_block(st->u.ifonoff.stmts, script, p);
            break;
        default:
            break;
        }
        k++;
    }
    list_iterator_destroy(itr);
}

static char *probe_hsprintf(const char *fmt, ...)
{
    va_list ap;
    const char *arg;
    int i;
    va_start(ap, fmt);
    arg = va_arg(ap, const char *);
    va_end(ap);
    for (i = 0; i < nsends; i++)
        if (sends[i].fmt == fmt)
            break;
    printf("H %d %s %d ", i < nsends ? sends[i].script : -1, i < nsends ? sends[i].path : "?", arg ? 1 : 0);
    hexs(arg);
    printf("\n");
    return xstrdup("");          /* empty output: _process_send finishes at once */
}

static bool stub_connect(Device *dev) { return false; }
static bool stub_finish_connect(Device *dev) { return false; }
static void stub_disconnect(Device *dev) { }
static void stub_complete(int client_id, ActError acterr, const char *fmt, ...) { printf("C %d\n", (int)acterr); }
static void stub_diag(int client_id, const char *fmt, ...) { }

static void run_queue(Device *dev)
{
    int guard = 0;
    while (!list_is_empty(dev->acts) && guard++ < 100000) {
        struct timeval tmo;
        Action *act = list_peek(dev->acts);
        ExecCtx *e = list_peek(act->exec);
        timerclear(&tmo);
        if (cur_script != act->com || !timerisset(&act->time_stamp)) {
            if (!timerisset(&act->time_stamp)) {
                printf("A %d ", act->com);
                if (e->plugs)
                    printf("%d\n", list_count(e->plugs));
                else
                    printf("NULL\n");
            }
            cur_script = act->com;
        }
        if (cbuf_is_empty(dev->from))
            cbuf_write(dev->from, "x", 1, NULL);
        dev->connect_state = DEV_CONNECTED;
        _process_action(dev, &tmo);
        if (dev->connect_state != DEV_CONNECTED) {       /* error path ran _reconnect */
            printf("R\n");
            dev->connect_state = DEV_CONNECTED;
            dev->logged_in = true;
        }
    }
    if (guard >= 100000)
        printf("GUARD\n");
    cbuf_flush(dev->from);
}

static void exec_device(Device *dev)
{
    static const int base[] = { PM_POWER_ON, PM_POWER_OFF, PM_POWER_CYCLE, PM_RESET, PM_BEACON_ON, PM_BEACON_OFF,
                                PM_STATUS_PLUGS, PM_STATUS_TEMP, PM_STATUS_BEACON };
    static const int plain[] = { PM_LOG_IN, PM_LOG_OUT, PM_PING };
    PlugListIterator pitr;
    Plug *plug;
    char *nodes[256];
    int nn = 0, i, t, st, fi;

    nsends = 0;
    for (i = 0; i < NUM_SCRIPTS; i++)
        if (dev->scripts[i])
            index_block(dev->scripts[i], i, "");
    dev->connect = stub_connect;
    dev->finish_connect = stub_finish_connect;
    dev->disconnect = stub_disconnect;
    dev->preprocess = NULL;
    dev->connect_state = DEV_CONNECTED;
    dev->logged_in = true;
    dev->timeout.tv_sec = 1000;           /* the time-out is not what R-CTX is about */
    pitr = pluglist_iterator_create(dev->plugs);
    while ((plug = pluglist_next(pitr)))
        if (plug->node && nn < 256)
            nodes[nn++] = plug->node;
    pluglist_iterator_destroy(pitr);
    printf("XSPEC "); hexs(dev->specname); printf(" nodes=%d\n", nn);

    fake_exec = 1;
    for (fi = 0; fi < 3; fi++) {
        fake_interp = fi;
        for (i = 0; i < 3; i++) {
            if (!dev->scripts[plain[i]])
                continue;                              /* a missing login script is finding F14, not ours */
            printf("Q %d plain\n", plain[i]);
            fflush(stdout);
            _enqueue_actions(dev, plain[i], NULL, stub_complete, NULL, stub_diag, 1, NULL);
            run_queue(dev);
        }
        for (i = 0; i < 9; i++) {
            int com = base[i];
            if (!dev->scripts[com] && _get_all_script(dev, com) == -1 && _get_ranged_script(dev, com) == -1)
                continue;
            /* targets: first node / first two nodes / all nodes;  initial state of every Arg: OFF, ON */
            for (t = 0; t < 3; t++) {
                int cnt = (t == 0) ? 1 : (t == 1) ? 2 : nn;
                if (cnt > nn || (t == 1 && nn <= 2) || nn == 0)
                    continue;
                for (st = 0; st < 2; st++) {
                    hostlist_t hl = hostlist_create(NULL);
                    ArgList al;
                    int k;
                    for (k = 0; k < cnt; k++)
                        hostlist_push_host(hl, nodes[k]);
                    al = arglist_create(hl);
                    for (k = 0; k < cnt; k++) {
                        Arg *a = arglist_find(al, nodes[k]);
                        if (a)
                            a->state = st ? ST_ON : ST_OFF;
                    }
                    printf("Q %d targets=%d state=%d interp=%d\n", com, cnt, st, fi);
                    fflush(stdout);
                    _enqueue_actions(dev, com, hl, stub_complete, NULL, stub_diag, 1, al);
                    run_queue(dev);
                    arglist_unlink(al);
                    hostlist_destroy(hl);
                }
            }
        }
    }
    fake_exec = 0;
    printf("ENDX\n");
}

/* ------------------------------------------------------------------ driver */
static void child(const char *mode, char *path)
{
    ListIterator itr;
    Device *dev;

    alarm(20);
    err_init("specdump");
    dev_init(true);
    conf_init(path);
    itr = list_iterator_create(dev_getdevices());
    while ((dev = list_next(itr))) {
        if (!strcmp(dev->name, "zz_dummy"))
            continue;
        dump_device(dev);
    }
    list_iterator_destroy(itr);
    if (mode[0] == 'X') {
        itr = list_iterator_create(dev_getdevices());
        while ((dev = list_next(itr))) {
            if (!strcmp(dev->name, "zz_dummy"))
                continue;
            exec_device(dev);
        }
        list_iterator_destroy(itr);
    }
    fflush(stdout);
    _exit(0);
}

int main(int argc, char **argv)
{
    char line[4096];

    setvbuf(stdout, NULL, _IOFBF, 1 << 16);
    while (fgets(line, sizeof(line), stdin)) {
        char *path, errbuf[400];
        pid_t pid;
        int status = 0, n = 0, i;
        FILE *ef;

        line[strcspn(line, "\n")] = '\0';
        if (strlen(line) < 3)
            continue;
        path = line + 2;
        printf("BEGIN %s\n", path);
        fflush(stdout);
        ef = tmpfile();
        pid = fork();
        if (pid == 0) {
            if (ef)
                dup2(fileno(ef), 2);
            child(line, path);
            _exit(99);
        }
        waitpid(pid, &status, 0);
        if (ef) {
            rewind(ef);
            n = fread(errbuf, 1, sizeof(errbuf) - 1, ef);
            fclose(ef);
        }
        printf("\nSTATUS exit=%d sig=%d err=", WIFEXITED(status) ? WEXITSTATUS(status) : -1,
               WIFSIGNALED(status) ? WTERMSIG(status) : 0);
        if (n <= 0)
            printf("-");
        for (i = 0; i < n; i++)
            printf("%02x", (unsigned char)errbuf[i]);
        printf("\n");
        fflush(stdout);
    }
    return 0;
}
