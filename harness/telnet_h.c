/* R-TEL, implementation side: the real telnet filter of src/powerman/device_tcp.c (included, so the statics
 * _telnet_init / _telnet_preprocess and TcpDev are visible) working on a Device whose from/to buffers are real
 * cbufs (src/liblsd/cbuf.c, included with read()/write() redirected to a scripted descriptor).
 *
 * case line:   <id> <minsize> <maxsize> | op | op | ...
 *   c <hex>      the device sends these bytes: what device.c does on POLLIN, repeated while the descriptor has
 *                data:  n = cbuf_write_from_fd (dev->from, fd, -1, &dropped); if (n > 0) preprocess (dev, n)
 *                                                                -> c nreads dropped_total err
 *   d <n>        an expect consumes n bytes: cbuf_peek + cbuf_drop (dev->from, n)       -> d ret hex
 *   s <script>   _handle_write: cbuf_read_to_fd (dev->to, fd, -1) with accept script   -> s err hex
 *   R            reconnect: cbuf_flush (from), cbuf_flush (to) as _disconnect does, then _telnet_init -> R
 * after every op:  " ; <from content> <to content> <tstate> <tcmd> <err() calls> ; <from indices> ; <to indices>"
 *
 * sweep mode (argv: sweep Lfull Luni part nparts): small-scope exhaustive enumeration, see props/C09.py.
 *
 * The preprocess method has one argument before fixes/F13-telnet-refilter.diff and two after it; the harness
 * calls whichever the tree under test declares. */
#include <stdio.h>
#include <stdlib.h>
#include <string.h>
#include <errno.h>
#include <unistd.h>
#include <stdbool.h>
#include <sys/types.h>
#include <sys/wait.h>

static ssize_t fake_read(int fd, void *buf, size_t n);
static ssize_t fake_write(int fd, const void *buf, size_t n);
#define read fake_read
#define write fake_write
#include "cbuf.c"
#undef read
#undef write
#undef MIN
#undef MAX

#include "device_tcp.c"
#include "cbuf_fakefd.h"

/* ---- what device_tcp.c needs from the rest of the daemon ---- */
static int err_calls;
void lsd_fatal_error(char *f, int l, char *m) { fprintf(stderr, "lsd_fatal_error %s:%d %s\n", f, l, m); abort(); }
void *lsd_nomem_error(char *f, int l, char *m) { fprintf(stderr, "lsd_nomem_error %s:%d %s\n", f, l, m); abort(); return NULL; }
void err(bool e, const char *fmt, ...) { (void)e; (void)fmt; err_calls++; }
void err_exit(bool e, const char *fmt, ...) { (void)e; fprintf(stderr, "err_exit: %s\n", fmt); exit(3); }
void dbg_wrapped(unsigned long ch, const char *fmt, ...) { (void)ch; (void)fmt; }
char *xmalloc(int size) { char *p = calloc(1, size > 0 ? size : 1); if (!p) abort(); return p; }
void xfree(void *p) { free(p); }
char *xstrdup(const char *s) { char *p = strdup(s); if (!p) abort(); return p; }
void nonblock_set(int fd) { (void)fd; }

/* one-argument (before the F13 fix) or two-argument (after) preprocess method */
#define CALL_PREPROCESS(dev, n) \
    __builtin_choose_expr(__builtin_types_compatible_p(__typeof__(tcp_preprocess), void(Device *)), \
        ((void (*)(Device *))tcp_preprocess)(dev), \
        ((void (*)(Device *, int))tcp_preprocess)((dev), (n)))
_Static_assert(__builtin_types_compatible_p(__typeof__(tcp_preprocess), void(Device *))
               || __builtin_types_compatible_p(__typeof__(tcp_preprocess), void(Device *, int)),
               "tcp_preprocess has neither of the two known signatures");

static Device dev;
static TcpDev tcpdev;

static int mk_device(int mn, int mx)
{
    memset(&dev, 0, sizeof dev);
    memset(&tcpdev, 0, sizeof tcpdev);
    dev.name = "t";
    dev.fd = FAKE_FD;
    dev.connect_state = DEV_CONNECTED;
    dev.from = cbuf_create(mn, mx);
    dev.to = cbuf_create(mn, mx);
    if (!dev.from || !dev.to) return 0;
    tcpdev.tstate = TELNET_NONE; tcpdev.tcmd = 0; tcpdev.quiet = true;     /* as tcp_create */
    dev.data = &tcpdev;
    dev.preprocess = tcp_preprocess;
    _telnet_init(&dev);
    err_calls = 0;
    return 1;
}

static void rm_device(void) { cbuf_destroy(dev.from); cbuf_destroy(dev.to); }

static unsigned char *content(cbuf_t cb, int *n)
{
    int u = cbuf_used(cb);
    unsigned char *b = malloc(u + 1);
    *n = u > 0 ? cbuf_peek(cb, b, u) : 0;
    return b;
}

static void idx(cbuf_t cb) { printf(" ; %d %d %d %d %d %d", cb->size, cb->used, cb->i_in, cb->i_out, cb->i_rep, cb->got_wrap ? 1 : 0); }

static void state(void)
{
    int n; unsigned char *b;
    printf(" ; ");
    b = content(dev.from, &n); puthex(b, n); free(b);
    putchar(' ');
    b = content(dev.to, &n); puthex(b, n); free(b);
    printf(" %d %d %d", (int)tcpdev.tstate, (int)tcpdev.tcmd, err_calls);
    idx(dev.from); idx(dev.to);
    putchar('\n');
}

/* the device sends n bytes; returns number of reads, accumulates dropped; *errp = 1 if a read reported error/EOF */
static int arrive(const unsigned char *b, size_t n, long *dropped_total, int *errp)
{
    int reads = 0;
    rd_load_bytes(b, n);
    *errp = 0;
    while (rd_pending() > 0) {
        int dropped = 0;
        int r = cbuf_write_from_fd(dev.from, dev.fd, -1, &dropped);
        reads++;
        *dropped_total += dropped;
        if (r <= 0) { *errp = 1; break; }
        CALL_PREPROCESS(&dev, r);
    }
    return reads;
}

static void run_case(char *line)
{
    char *save = NULL;
    char *hdr = strtok_r(line, "|", &save);
    char id[64]; int mn, mx;
    if (sscanf(hdr, "%63s %d %d", id, &mn, &mx) != 3) { printf("? bad header\n"); return; }
    int ok = mk_device(mn, mx);
    printf("C %s %d\n", id, ok);
    if (!ok) return;
    char *op;
    while ((op = strtok_r(NULL, "|", &save))) {
        while (*op == ' ') op++;
        char c = *op;
        if (!c || c == '\n') continue;
        if (c == 'c') {
            size_t n; unsigned char *b = unhex(op + 1, &n); long dr = 0; int e = 0;
            int reads = n > 0 ? arrive(b, n, &dr, &e) : 0;
            printf("c %d %ld %d", reads, dr, e); free(b);
        } else if (c == 'd') {
            int n; sscanf(op + 1, "%d", &n);
            unsigned char *b = malloc(n > 0 ? n : 1);
            int p = n > 0 ? cbuf_peek(dev.from, b, n) : 0;
            int r = cbuf_drop(dev.from, n);
            printf("d %d ", r); puthex(b, p > 0 ? p : 0); free(b);
        } else if (c == 's') {
            char *scr = malloc(strlen(op) + 1); scr[0] = 0; sscanf(op + 1, "%s", scr);
            wr_load(scr);
            int r = cbuf_read_to_fd(dev.to, dev.fd, -1);
            printf("s %d ", r <= 0 ? 1 : 0); puthex(wr_buf, wr_len); free(scr);
        } else if (c == 'R') {
            cbuf_flush(dev.from); cbuf_flush(dev.to);
            _telnet_init(&dev);
            printf("R");
        } else {
            printf("? unknown op %c", c);
        }
        state();
    }
    rm_device();
}

/* ---- small-scope exhaustive sweep ------------------------------------------------------------------------ */
static const unsigned char ALPHA[6] = { 255 /*IAC*/, 253 /*DO*/, 251 /*WILL*/, 250 /*SB*/, 'a', 0 };
#define SW_MIN 8
#define SW_MAX 32
#define MAXRES 64
static struct { char key[160]; char wit[48]; } res[MAXRES];
static int nres; static long ncases;

static void record(const unsigned char *cons, int ncons, const char *wit)
{
    char key[160]; int p = 0; int n; unsigned char *b;
    static const char *d = "0123456789abcdef";
    b = content(dev.from, &n);
    if (ncons + n == 0) key[p++] = '-';
    for (int i = 0; i < ncons; i++) { key[p++] = d[cons[i] >> 4]; key[p++] = d[cons[i] & 15]; }
    for (int i = 0; i < n; i++) { key[p++] = d[b[i] >> 4]; key[p++] = d[b[i] & 15]; }
    free(b);
    key[p++] = '/';
    b = content(dev.to, &n);
    if (n == 0) key[p++] = '-';
    for (int i = 0; i < n && p < 140; i++) { key[p++] = d[b[i] >> 4]; key[p++] = d[b[i] & 15]; }
    free(b);
    p += sprintf(key + p, "/%d/%d/%d", (int)tcpdev.tstate, (int)tcpdev.tcmd, err_calls);
    key[p] = 0;
    ncases++;
    for (int i = 0; i < nres; i++) if (!strcmp(res[i].key, key)) return;
    if (nres < MAXRES) { strcpy(res[nres].key, key); strncpy(res[nres].wit, wit, 47); res[nres].wit[47] = 0; nres++; }
}

/* run one (stream, split mask, per-chunk drop schedule) */
static void one(const unsigned char *s, int L, int mask, const int *sched)
{
    unsigned char cons[64]; int ncons = 0; char wit[48]; int wp;
    mk_device(SW_MIN, SW_MAX);
    wp = sprintf(wit, "%d:", mask);
    int start = 0, ci = 0;
    for (int i = 0; i < L; i++) {
        if (i == L - 1 || (mask >> i) & 1) {
            long dr = 0; int e = 0;
            arrive(s + start, i + 1 - start, &dr, &e);
            int want = sched[ci];
            wit[wp++] = '0' + want;
            if (want > 0) {
                unsigned char b[4];
                int p = cbuf_peek(dev.from, b, want);
                if (p > 0) { memcpy(cons + ncons, b, p); ncons += p; }
                cbuf_drop(dev.from, want);
            }
            start = i + 1; ci++;
        }
    }
    wit[wp] = 0;
    record(cons, ncons, wit);
    rm_device();
}

static void sweep_stream(const unsigned char *s, int L, int Lfull)
{
    nres = 0; ncases = 0;
    int nmask = L > 0 ? 1 << (L - 1) : 1;
    for (int mask = 0; mask < nmask; mask++) {
        int chunks = L > 0 ? 1 + __builtin_popcount(mask) : 0;
        int sched[8] = { 0 };
        if (L == 0) { mk_device(SW_MIN, SW_MAX); record(NULL, 0, "0:"); rm_device(); continue; }
        if (L <= Lfull) {
            int total = 1; for (int i = 0; i < chunks; i++) total *= 3;
            for (int v = 0; v < total; v++) {
                int x = v; for (int i = chunks - 1; i >= 0; i--) { sched[i] = x % 3; x /= 3; }
                one(s, L, mask, sched);
            }
        } else {
            for (int dd = 0; dd < 3; dd++) { for (int i = 0; i < chunks; i++) sched[i] = dd; one(s, L, mask, sched); }
        }
    }
    printf("S "); puthex(s, L); printf(" %ld %d", ncases, nres);
    for (int i = 0; i < nres; i++) printf(" %s@%s", res[i].key, res[i].wit);
    putchar('\n');
}

static void sweep(int Lfull, int Luni, int part, int nparts)
{
    long idx = 0;
    for (int L = 0; L <= Luni; L++) {
        long total = 1; for (int i = 0; i < L; i++) total *= 6;
        for (long v = 0; v < total; v++, idx++) {
            if (idx % nparts != part) continue;
            unsigned char s[8]; long x = v;
            for (int i = L - 1; i >= 0; i--) { s[i] = ALPHA[x % 6]; x /= 6; }
            sweep_stream(s, L, Lfull);
        }
    }
}

int main(int argc, char **argv)
{
    char *line = NULL; size_t cap = 0; ssize_t n;
    static char obuf[1 << 20];
    setvbuf(stdout, obuf, _IOFBF, sizeof obuf);
    if (argc > 5 && !strcmp(argv[1], "sweep")) {
        sweep(atoi(argv[2]), atoi(argv[3]), atoi(argv[4]), atoi(argv[5]));
        fflush(stdout);
        return 0;
    }
    int nofork = argc > 1 && !strcmp(argv[1], "nofork");
    while ((n = getline(&line, &cap, stdin)) > 0) {
        if (line[n - 1] == '\n') line[n - 1] = 0;
        if (!line[0] || line[0] == '#') continue;
        if (nofork) { run_case(line); continue; }
        fflush(stdout);
        pid_t pid = fork();
        if (pid == 0) { setvbuf(stdout, NULL, _IOLBF, 0); run_case(line); fflush(stdout); _exit(0); }
        int st = 0; waitpid(pid, &st, 0);
        if (!(WIFEXITED(st) && WEXITSTATUS(st) == 0)) {
            char id[64] = "?"; sscanf(line, "%63s", id);
            printf("\n! %s %s %d\n", id, WIFSIGNALED(st) ? "signal" : "exit", WIFSIGNALED(st) ? WTERMSIG(st) : WEXITSTATUS(st));
        }
    }
    free(line);
    fflush(stdout);
    return 0;
}
