/* R-TEL, implementation side: the real telnet filter of src/powerman/device_tcp.c and the real device.c functions
 * around it (both #included, so the statics _telnet_init / _telnet_preprocess / tcp_finish_connect_one /
 * _handle_ready_device / _handle_read / _handle_write / _disconnect / _getregex_buf are visible), working on a Device
 * whose from/to buffers are real cbufs (src/liblsd/cbuf.c, included with read()/write() redirected to a scripted
 * descriptor).  Linked with the tree's list.c, xregex.c, arglist.c, pluglist.c, hostlist.c, hash.c; everything of
 * device.c that these entry points do not reach is dropped by --gc-sections.
 *
 * case line:   <id> <minsize> <maxsize> | op | op | ...
 *   c <hex>      the device sends these bytes: POLLIN is reported while the descriptor has data, i.e.
 *                _handle_ready_device (dev, XPOLLIN)  =  _handle_read (cbuf_write_from_fd (dev->from, fd, -1, &dropped))
 *                followed by dev->preprocess (dev, nread)                         -> c nreads dropped_total err
 *   d <n>        an expect consumes n bytes: cbuf_peek + cbuf_drop (dev->from, n)       -> d ret hex
 *   e <n>        an expect with the pattern ^.{n} through the real _getregex_buf (dev->from, re, xm):
 *                                                    -> e 1 <hex of the subject it matched against> | e 0 -
 *   s <script>   POLLOUT: _handle_ready_device (dev, XPOLLOUT) = _handle_write = cbuf_read_to_fd (dev->to, fd, -1)
 *                with this accept script                                               -> s err hex
 *   R            reconnect: the real _disconnect (dev) (-> tcp_disconnect, flush of both buffers), then the connect
 *                completes: tcp_finish_connect_one (dev) (-> _telnet_init)             -> R
 * after every op:  " ; <from content> <to content> <tstate> <tcmd> <err() calls of the filter> ; <from indices> ; <to indices>"
 *
 * sweep mode (argv: sweep Lfull Luni part nparts): small-scope exhaustive enumeration, see props/C09.py. */
#include <stdio.h>
#include <stdlib.h>
#include <string.h>
#include <errno.h>
#include <unistd.h>
#include <stdbool.h>
#include <stdarg.h>
#include <sys/types.h>
#include <sys/socket.h>
#include <sys/wait.h>

static ssize_t fake_read(int fd, void *buf, size_t n);
static ssize_t fake_write(int fd, const void *buf, size_t n);
#define read fake_read
#define write fake_write
#include "cbuf.c"
#undef read
#undef write
#undef MIN
#undef MAX

/* the connect "completes without error"; the descriptor is ours, nothing to close */
static int fake_getsockopt(int fd, int level, int opt, void *val, socklen_t *len) { (void)fd; (void)level; (void)opt; (void)len; *(int *)val = 0; return 0; }
static int fake_close(int fd) { (void)fd; return 0; }
#define getsockopt fake_getsockopt
#define close fake_close
#include "device_tcp.c"
#undef getsockopt
#undef close
#undef MIN
#undef MAX

#include "device.c"
#include "cbuf_fakefd.h"

/* ---- what the included files need from the rest of the daemon ---- */
static int err_calls;            /* diagnostics of the telnet filter (short cbuf_write / cbuf_drop) */
static long lost_reported;       /* "<dev> lost <n> chars due to buffer wrap" of _handle_read */
void lsd_fatal_error(char *f, int l, char *m) { fprintf(stderr, "lsd_fatal_error %s:%d %s\n", f, l, m); abort(); }
void *lsd_nomem_error(char *f, int l, char *m) { fprintf(stderr, "lsd_nomem_error %s:%d %s\n", f, l, m); abort(); return NULL; }
void err(bool e, const char *fmt, ...)
{
    (void)e;
    if (!strncmp(fmt, "_telnet", 7))
        err_calls++;
    else if (strstr(fmt, "lost %d chars")) {
        va_list ap; va_start(ap, fmt); (void)va_arg(ap, char *); lost_reported += va_arg(ap, int); va_end(ap);
    }
}
void err_exit(bool e, const char *fmt, ...) { (void)e; fprintf(stderr, "err_exit: %s\n", fmt); exit(3); }
void dbg_wrapped(unsigned long ch, const char *fmt, ...) { (void)ch; (void)fmt; }
char *xmalloc(int size) { char *p = calloc(1, size > 0 ? size : 1); if (!p) abort(); return p; }
void xfree(void *p) { free(p); }
char *xstrdup(const char *s) { char *p = strdup(s); if (!p) abort(); return p; }
void nonblock_set(int fd) { (void)fd; }

static Device dev;
static TcpDev tcpdev;

/* the connect completes: what _handle_ready_device does on XPOLLOUT while DEV_CONNECTING, minus _enqueue_login */
static void finish_connect(void)
{
    dev.fd = FAKE_FD;
    dev.connect_state = DEV_CONNECTING;
    if (!tcp_finish_connect_one(&dev)) { fprintf(stderr, "tcp_finish_connect_one failed\n"); exit(3); }
}

static int mk_device(int mn, int mx)
{
    memset(&dev, 0, sizeof dev);
    memset(&tcpdev, 0, sizeof tcpdev);
    dev.name = "t";
    dev.from = cbuf_create(mn, mx);
    dev.to = cbuf_create(mn, mx);
    if (!dev.from || !dev.to) return 0;
    tcpdev.tstate = TELNET_NONE; tcpdev.tcmd = 0; tcpdev.quiet = true;     /* as tcp_create */
    dev.data = &tcpdev;
    dev.preprocess = tcp_preprocess;
    dev.disconnect = tcp_disconnect;
    dev.finish_connect = tcp_finish_connect;
    dev.acts = list_create(NULL);
    finish_connect();
    err_calls = 0;
    return 1;
}

static void rm_device(void) { cbuf_destroy(dev.from); cbuf_destroy(dev.to); list_destroy(dev.acts); }

static unsigned char *content(cbuf_t cb, int *n)
{
    int u = cbuf_used(cb);
    unsigned char *b = malloc(u + 1);
    *n = u > 0 ? cbuf_peek(cb, b, u) : 0;
    return b;
}

static void idx(cbuf_t cb) { printf(" ; %d %d %d %d %d %d", cb->size, cb->used, cb->i_in, cb->i_out, cb->i_rep, cb->got_wrap ? 1 : 0); }

static void state(void)
{
    int n; unsigned char *b;
    printf(" ; ");
    b = content(dev.from, &n); puthex(b, n); free(b);
    putchar(' ');
    b = content(dev.to, &n); puthex(b, n); free(b);
    printf(" %d %d %d", (int)tcpdev.tstate, (int)tcpdev.tcmd, err_calls);
    idx(dev.from); idx(dev.to);
    putchar('\n');
}

/* the device sends n bytes; returns number of POLLIN rounds, accumulates the reported loss; *errp = 1 if a round
 * ended in the i/o error path (the caller would _disconnect) */
static int arrive(const unsigned char *b, size_t n, long *dropped_total, int *errp)
{
    int reads = 0;
    rd_load_bytes(b, n);
    *errp = 0;
    while (rd_pending() > 0) {
        lost_reported = 0;
        bool ioerr = _handle_ready_device(&dev, XPOLLIN);
        reads++;
        *dropped_total += lost_reported;
        if (ioerr) { *errp = 1; break; }
    }
    return reads;
}

/* an expect whose pattern matches exactly the first n bytes of a subject of at least n bytes */
static void expect_n(int n)
{
    char pat[64];
    xregex_t re = xregex_create();
    xregex_match_t xm = xregex_match_create(1);
    snprintf(pat, sizeof pat, "^.{%d}", n);
    xregex_compile(re, pat, true);
    char *str = _getregex_buf(dev.from, re, xm);
    if (str) { printf("e 1 "); puthex((unsigned char *)str, (long)strlen(str)); xfree(str); }
    else printf("e 0 -");
    xregex_match_destroy(xm);
    xregex_destroy(re);
}

static void run_case(char *line)
{
    char *save = NULL;
    char *hdr = strtok_r(line, "|", &save);
    char id[64]; int mn, mx;
    if (sscanf(hdr, "%63s %d %d", id, &mn, &mx) != 3) { printf("? bad header\n"); return; }
    int ok = mk_device(mn, mx);
    printf("C %s %d\n", id, ok);
    if (!ok) return;
    char *op;
    while ((op = strtok_r(NULL, "|", &save))) {
        while (*op == ' ') op++;
        char c = *op;
        if (!c || c == '\n') continue;
        if (c == 'c') {
            size_t n; unsigned char *b = unhex(op + 1, &n); long dr = 0; int e = 0;
            int reads = n > 0 ? arrive(b, n, &dr, &e) : 0;
            printf("c %d %ld %d", reads, dr, e); free(b);
        } else if (c == 'd') {
            int n; sscanf(op + 1, "%d", &n);
            unsigned char *b = malloc(n > 0 ? n : 1);
            int p = n > 0 ? cbuf_peek(dev.from, b, n) : 0;
            int r = cbuf_drop(dev.from, n);
            printf("d %d ", r); puthex(b, p > 0 ? p : 0); free(b);
        } else if (c == 's') {
            char *scr = malloc(strlen(op) + 1); scr[0] = 0; sscanf(op + 1, "%s", scr);
            wr_load(scr);
            bool ioerr = _handle_ready_device(&dev, XPOLLOUT);
            printf("s %d ", ioerr ? 1 : 0); puthex(wr_buf, wr_len); free(scr);
        } else if (c == 'e') {
            int n; sscanf(op + 1, "%d", &n);
            expect_n(n);
        } else if (c == 'R') {
            _disconnect(&dev);
            finish_connect();
            printf("R");
        } else {
            printf("? unknown op %c", c);
        }
        state();
    }
    rm_device();
}

/* ---- small-scope exhaustive sweep ------------------------------------------------------------------------ */
static const unsigned char ALPHA[6] = { 255 /*IAC*/, 253 /*DO*/, 251 /*WILL*/, 250 /*SB*/, 'a', 0 };
#define SW_MIN 8
#define SW_MAX 32
#define MAXRES 64
static struct { char key[160]; char wit[48]; } res[MAXRES];
static int nres; static long ncases;

static void record(const unsigned char *cons, int ncons, const char *wit)
{
    char key[160]; int p = 0; int n; unsigned char *b;
    static const char *d = "0123456789abcdef";
    b = content(dev.from, &n);
    if (ncons + n == 0) key[p++] = '-';
    for (int i = 0; i < ncons; i++) { key[p++] = d[cons[i] >> 4]; key[p++] = d[cons[i] & 15]; }
    for (int i = 0; i < n; i++) { key[p++] = d[b[i] >> 4]; key[p++] = d[b[i] & 15]; }
    free(b);
    key[p++] = '/';
    b = content(dev.to, &n);
    if (n == 0) key[p++] = '-';
    for (int i = 0; i < n && p < 140; i++) { key[p++] = d[b[i] >> 4]; key[p++] = d[b[i] & 15]; }
    free(b);
    p += sprintf(key + p, "/%d/%d/%d", (int)tcpdev.tstate, (int)tcpdev.tcmd, err_calls);
    key[p] = 0;
    ncases++;
    for (int i = 0; i < nres; i++) if (!strcmp(res[i].key, key)) return;
    if (nres < MAXRES) { strcpy(res[nres].key, key); strncpy(res[nres].wit, wit, 47); res[nres].wit[47] = 0; nres++; }
}

/* run one (stream, split mask, per-chunk drop schedule) */
static void one(const unsigned char *s, int L, int mask, const int *sched)
{
    unsigned char cons[64]; int ncons = 0; char wit[48]; int wp;
    mk_device(SW_MIN, SW_MAX);
    wp = sprintf(wit, "%d:", mask);
    int start = 0, ci = 0;
    for (int i = 0; i < L; i++) {
        if (i == L - 1 || (mask >> i) & 1) {
            long dr = 0; int e = 0;
            arrive(s + start, i + 1 - start, &dr, &e);
            int want = sched[ci];
            wit[wp++] = '0' + want;
            if (want > 0) {
                unsigned char b[4];
                int p = cbuf_peek(dev.from, b, want);
                if (p > 0) { memcpy(cons + ncons, b, p); ncons += p; }
                cbuf_drop(dev.from, want);
            }
            start = i + 1; ci++;
        }
    }
    wit[wp] = 0;
    record(cons, ncons, wit);
    rm_device();
}

static void sweep_stream(const unsigned char *s, int L, int Lfull)
{
    nres = 0; ncases = 0;
    int nmask = L > 0 ? 1 << (L - 1) : 1;
    for (int mask = 0; mask < nmask; mask++) {
        int chunks = L > 0 ? 1 + __builtin_popcount(mask) : 0;
        int sched[8] = { 0 };
        if (L == 0) { mk_device(SW_MIN, SW_MAX); record(NULL, 0, "0:"); rm_device(); continue; }
        if (L <= Lfull) {
            int total = 1; for (int i = 0; i < chunks; i++) total *= 3;
            for (int v = 0; v < total; v++) {
                int x = v; for (int i = chunks - 1; i >= 0; i--) { sched[i] = x % 3; x /= 3; }
                one(s, L, mask, sched);
            }
        } else {
            for (int dd = 0; dd < 3; dd++) { for (int i = 0; i < chunks; i++) sched[i] = dd; one(s, L, mask, sched); }
        }
    }
    printf("S "); puthex(s, L); printf(" %ld %d", ncases, nres);
    for (int i = 0; i < nres; i++) printf(" %s@%s", res[i].key, res[i].wit);
    putchar('\n');
}

static void sweep(int Lfull, int Luni, int part, int nparts)
{
    long idx = 0;
    for (int L = 0; L <= Luni; L++) {
        long total = 1; for (int i = 0; i < L; i++) total *= 6;
        for (long v = 0; v < total; v++, idx++) {
            if (idx % nparts != part) continue;
            unsigned char s[8]; long x = v;
            for (int i = L - 1; i >= 0; i--) { s[i] = ALPHA[x % 6]; x /= 6; }
            sweep_stream(s, L, Lfull);
        }
    }
}

int main(int argc, char **argv)
{
    char *line = NULL; size_t cap = 0; ssize_t n;
    static char obuf[1 << 20];
    setvbuf(stdout, obuf, _IOFBF, sizeof obuf);
    if (argc > 5 && !strcmp(argv[1], "sweep")) {
        sweep(atoi(argv[2]), atoi(argv[3]), atoi(argv[4]), atoi(argv[5]));
        fflush(stdout);
        return 0;
    }
    int nofork = argc > 1 && !strcmp(argv[1], "nofork");
    while ((n = getline(&line, &cap, stdin)) > 0) {
        if (line[n - 1] == '\n') line[n - 1] = 0;
        if (!line[0] || line[0] == '#') continue;
        if (nofork) { run_case(line); continue; }
        fflush(stdout);
        pid_t pid = fork();
        if (pid == 0) { setvbuf(stdout, NULL, _IOLBF, 0); run_case(line); fflush(stdout); _exit(0); }
        int st = 0; waitpid(pid, &st, 0);
        if (!(WIFEXITED(st) && WEXITSTATUS(st) == 0)) {
            char id[64] = "?"; sscanf(line, "%63s", id);
            printf("\n! %s %s %d\n", id, WIFSIGNALED(st) ? "signal" : "exit", WIFSIGNALED(st) ? WTERMSIG(st) : WEXITSTATUS(st));
        }
    }
    free(line);
    fflush(stdout);
    return 0;
}
